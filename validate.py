#!/opt/veriftools/pyvenv/bin/python
"""Validate MANIFEST.json and every evidence file against the schemas."""
import json, sys, glob, jsonschema
ok = True
def v(path, schema):
    global ok
    try:
        jsonschema.validate(json.load(open(path)), json.load(open(schema)))
        print("valid  ", path)
    except Exception as e:
        ok = False
        print("INVALID", path, str(e)[:300])
v('/verif/MANIFEST.json', '/root/.vp/MANIFEST.schema.json')
for p in sorted(glob.glob('/verif/evidence/*.json')):
    v(p, '/root/.vp/EVIDENCE.schema.json')
sys.exit(0 if ok else 1)
