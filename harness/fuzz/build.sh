#!/usr/bin/env bash
# warm the fuzz build (MANIFEST.setup_cmd)
cd "$(dirname "$0")" || exit 2
export CARGO_NET_OFFLINE=true
cargo +nightly fuzz build > build.log 2>&1 || { echo "fuzz build failed"; tail -n 20 build.log; exit 2; }
