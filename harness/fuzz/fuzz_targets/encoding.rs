#![no_main]
//! C10: bytes decode like their independent lossy conversion; the text decodes alike in all encodings.
use libfuzzer_sys::fuzz_target;

fuzz_target!(|data: &[u8]| {
    if data.len() > 16384 {
        return;
    }
    if let Err(m) = rosu_verif::props::c10::check_plain(data) {
        panic!("VERIF-VIOLATION C10: {m}");
    }
});
