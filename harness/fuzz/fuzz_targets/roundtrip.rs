#![no_main]
//! C02 (round trip) and C04 (encoder output accepted) on raw bytes read as text.
use libfuzzer_sys::fuzz_target;
use rosu_verif::engine::KnownFindings;
use rosu_verif::props::{c02, c04};
use std::sync::OnceLock;

struct Env {
    open: c02::Open,
    denc: String,
    k1: bool,
    k3: bool,
    k10: bool,
    /// which of the two properties this campaign decides (VERIF_FUZZ_PROPS, set by run.sh; default both)
    c02: bool,
    c04: bool,
}
static ENV: OnceLock<Env> = OnceLock::new();

fuzz_target!(|data: &[u8]| {
    if data.len() > 16384 {
        return;
    }
    let env = ENV.get_or_init(|| {
        let kf = KnownFindings::load();
        let o = |k: &str| kf.is_open("C02", k);
        let props = std::env::var("VERIF_FUZZ_PROPS").unwrap_or_default();
        Env {
            c02: props.is_empty() || props.contains("C02"),
            c04: props.is_empty() || props.contains("C04"),
            open: c02::Open { k: [o(c02::K1), o(c02::K2), o(c02::K3), o(c02::K4), o(c02::K5), o(c02::K9), o(c02::K11), o(c02::K12)] },
            denc: c02::default_encoding(),
            k1: kf.is_open("C04", c04::K1),
            k3: kf.is_open("C04", c04::K3),
            k10: kf.is_open("C04", c04::K10),
        }
    });
    let text = rosu_verif::refmodel::framing::decode_bytes(data);
    if env.c02 {
        if let c02::Judgement::Fail(m) = c02::judge(&text, &env.open, &env.denc) {
            panic!("VERIF-VIOLATION C02: {m}");
        }
    }
    if !env.c04 {
        return;
    }
    if let Ok(m1) = rosu_map::from_bytes::<rosu_map::Beatmap>(data) {
        if rosu_verif::props::c01::predicted_events(&m1) <= 2.0e6 {
            if let Err(m) = c04::check_map_k(&m1, env.k1, env.k3, env.k10) {
                panic!("VERIF-VIOLATION C04: {m}");
            }
        }
    }
});
