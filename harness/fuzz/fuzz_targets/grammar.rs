#![no_main]
//! Text-level grammar fuzzing against the reference models: the input (after three selector bytes) is
//! the body of the property's section - C11 key/value/event/colour records, C12 timing-point lines,
//! C14 hit-object lines. The property is selected by VERIF_FUZZ_PROPS (one id).
use libfuzzer_sys::fuzz_target;
use rosu_verif::engine::{Ctx, Tier};
use std::cell::RefCell;

thread_local! {
    static ENV: RefCell<Option<(Ctx, &'static str)>> = RefCell::new(None);
}

fuzz_target!(|data: &[u8]| {
    if data.len() > 2048 {
        return;
    }
    ENV.with(|e| {
        let mut e = e.borrow_mut();
        if e.is_none() {
            let id = std::env::var("VERIF_FUZZ_PROPS").unwrap_or_else(|_| "C14".into());
            let id = id.split_whitespace().next().unwrap_or("C14").to_string();
            let (id, _run, _replay) = rosu_verif::props::registry(&id).expect("unknown property in VERIF_FUZZ_PROPS");
            *e = Some((Ctx::new(id, Tier::Quick, 0), id));
        }
        let (ctx, id) = e.as_mut().unwrap();
        if let Err(f) = rosu_verif::props::replay_gtext(id, ctx, data) {
            panic!("VERIF-VIOLATION {id}: {}", f.msg);
        }
    });
});
