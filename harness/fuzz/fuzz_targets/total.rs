#![no_main]
//! C01 (totality, with the sentinel) and C07 (decoder agreement) on raw bytes.
use libfuzzer_sys::fuzz_target;
use rosu_verif::props::{c01, c07};

fuzz_target!(|data: &[u8]| {
    if data.len() > 65536 {
        return;
    }
    let mut bytes = data.to_vec();
    let sentinel = c01::add_sentinel(&mut bytes);
    let input = c01::Input { bytes, family: "fuzz", sentinel };
    if let c01::Verdict::Fail(m) = c01::check_totality(&input) {
        panic!("VERIF-VIOLATION C01: {m}");
    }
    if let Err(m) = c07::agree(data) {
        panic!("VERIF-VIOLATION C07: {m}");
    }
});
