#![no_main]
//! C06: deleting the lines the parsers reject does not change the result.
use libfuzzer_sys::fuzz_target;

fuzz_target!(|data: &[u8]| {
    if data.len() > 16384 {
        return;
    }
    let text = rosu_verif::refmodel::framing::decode_bytes(data);
    if let Err(m) = rosu_verif::props::c06::evaluate(&text) {
        panic!("VERIF-VIOLATION C06: {m}");
    }
});
