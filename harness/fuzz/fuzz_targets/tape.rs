#![no_main]
//! Generator-tape fuzzing: the input is the byte tape the property's own generator reads
//! (`replay(ctx, "tape", data)`), so libFuzzer's coverage feedback steers the structured generator.
//! The property is selected by VERIF_FUZZ_PROPS (one id). Known findings are tolerated by the
//! property's classifier exactly as in the generated search.
use libfuzzer_sys::fuzz_target;
use rosu_verif::engine::{Ctx, Tier};
use std::cell::RefCell;

thread_local! {
    static ENV: RefCell<Option<(Ctx, &'static str)>> = RefCell::new(None);
}

fuzz_target!(|data: &[u8]| {
    if data.len() > 4096 {
        return;
    }
    ENV.with(|e| {
        let mut e = e.borrow_mut();
        if e.is_none() {
            let id = std::env::var("VERIF_FUZZ_PROPS").unwrap_or_else(|_| "C13".into());
            let id = id.split_whitespace().next().unwrap_or("C13").to_string();
            let (id, _run, _replay) = rosu_verif::props::registry(&id).expect("unknown property in VERIF_FUZZ_PROPS");
            *e = Some((Ctx::new(id, Tier::Quick, 0), id));
        }
        let (ctx, id) = e.as_mut().unwrap();
        if let Err(f) = rosu_verif::props::replay_ftape(id, ctx, data) {
            panic!("VERIF-VIOLATION {id}: {}", f.msg);
        }
    });
});
