#![no_main]
//! C05: trace of a recording decoder vs the framing model, on raw bytes.
use libfuzzer_sys::fuzz_target;
use rosu_verif::refmodel::framing::{decode_bytes, frame, Rec};

fuzz_target!(|data: &[u8]| {
    if data.len() > 16384 {
        return;
    }
    let got: Rec = match rosu_map::from_bytes(data) {
        Ok(r) => r,
        Err(e) => panic!("VERIF-VIOLATION C05: decode error {e}"),
    };
    let want = frame(&decode_bytes(data));
    if got.version != want.version || got.trace != want.trace {
        panic!("VERIF-VIOLATION C05: version {} vs {}, trace {:?} vs {:?}", got.version, want.version, got.trace, want.trace);
    }
});
