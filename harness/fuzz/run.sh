#!/usr/bin/env bash
# fuzz/run.sh <target> <seconds> <stats-file> <ID> [<ID> ...]
# Runs a libFuzzer/ASan campaign of <target>; every crash artefact is replayed through the
# plain oracle of the given properties (./target/release/check <ID> --replay <file>).
# exit 0: nothing found; 1: a VIOLATION line was printed; 2: inconclusive (build failure, timeout/oom artefact)
set -u
cd "$(dirname "$0")" || exit 2
T="$1"; SECS="$2"; STATS="$3"; shift 3; IDS=("$@")
export CARGO_NET_OFFLINE=true
export VERIF_FUZZ_PROPS="${IDS[*]}"
SEED="${VERIF_SEED:-0}"; [ "$SEED" = "0" ] && SEED=1
WORK="$PWD/work/$T"; rm -rf "$WORK" "corpus/$T" "artifacts/$T"; mkdir -p "$WORK" "corpus/$T" "artifacts/$T"
if ! cargo +nightly fuzz build "$T" >"$WORK/build.log" 2>&1; then echo "INCONCLUSIVE: fuzz build failed"; tail -n 20 "$WORK/build.log"; exit 2; fi
EXT=osu; MAXLEN=8192
if [ "$T" = "tape" ]; then
  # generator-tape fuzzing: the corpus is a set of pseudo-random tapes; artefacts are replayed as .ftape
  EXT=ftape; MAXLEN=4096
  ../target/release/check gen-tapes "$PWD/corpus/$T" 300
elif [ "$T" = "grammar" ]; then
  # text-level grammar fuzzing: generated section bodies (three selector bytes + text); artefacts are .gtext
  EXT=gtext; MAXLEN=2048
  ../target/release/check gen-gtext "$PWD/corpus/$T" "${IDS[0]}" 300
else
  # start corpus: bundled files (large ones cut), generated documents, the committed reproductions, an empty input
  for f in /repo/resources/*; do head -c 8192 "$f" > "corpus/$T/res-$(basename "$f" | tr -c 'A-Za-z0-9._-' '_')"; done
  ../target/release/check gen-corpus "$PWD/corpus/$T" 200
  for id in "${IDS[@]}"; do for f in ${VERIF_ROOT:-/verif}/regress/$id/*.osu; do [ -f "$f" ] && cp "$f" "corpus/$T/regress-$id-$(basename "$f")"; done; done
fi
BIN="target/x86_64-unknown-linux-gnu/release/$T"
START=$(date +%s)
( cd "$WORK" && "../../$BIN" "../../corpus/$T" -artifact_prefix="../../artifacts/$T/" -max_total_time="$SECS" -jobs=16 -workers=16 -max_len=$MAXLEN -len_control=0 -timeout=60 -rss_limit_mb=4096 -seed="$SEED" -print_final_stats=1 >"$WORK/driver.log" 2>&1 )
END=$(date +%s)
EXECS=$(grep -h "stat::number_of_executed_units" "$WORK"/fuzz-*.log 2>/dev/null | awk '{s+=$2} END{print s+0}')
CORPUS=$(ls "corpus/$T" | wc -l)
FEAT=$(grep -ho "ft: [0-9]*" "$WORK"/fuzz-*.log 2>/dev/null | awk '{if($2>m)m=$2} END{print m+0}')
COV=$(grep -ho "cov: [0-9]*" "$WORK"/fuzz-*.log 2>/dev/null | awk '{if($2>m)m=$2} END{print m+0}')
NART=$(ls "artifacts/$T" 2>/dev/null | wc -l)
DOM=""
if [ "$T" = "grammar" ]; then
  # how much of the final corpus is inside the line-level domain (the rest is excluded, not judged)
  read -r DIN DOUT < <(../target/release/check gdomain "${IDS[0]}" "$PWD/corpus/$T")
  DOM=$(printf ',"corpus_in_domain":%d,"corpus_outside_domain":%d' "${DIN:-0}" "${DOUT:-0}")
fi
printf '{"target":"%s","property":"%s","sanitizer":"address","seconds":%d,"workers":16,"executions":%d,"corpus_files":%d,"max_features":%d,"max_cov":%d,"artifacts":%d,"seed":%d%s}\n' "$T" "${IDS[*]}" $((END-START)) "$EXECS" "$CORPUS" "$FEAT" "$COV" "$NART" "$SEED" "$DOM" > "$STATS"
echo "fuzz[$T]: ${EXECS} executions in $((END-START))s, corpus ${CORPUS}, artifacts ${NART}"
rc=0
for a in "artifacts/$T"/*; do
  [ -f "$a" ] || continue
  case "$(basename "$a")" in
    crash-*|leak-*)
      found=0
      for id in "${IDS[@]}"; do
        cp "$a" "$WORK/replay.$EXT"
        out=$(../target/release/check "$id" --replay "$WORK/replay.$EXT" 2>&1); r=$?
        if [ $r -eq 1 ]; then mkdir -p "${VERIF_ROOT:-/verif}/replays/$id"; cp "$a" "${VERIF_ROOT:-/verif}/replays/$id/fuzz-$(basename "$a").$EXT"; echo "VIOLATION property=$id replay=${VERIF_ROOT:-/verif}/replays/$id/fuzz-$(basename "$a").$EXT"; echo "$out" | grep detail | head -3; found=1; rc=1; fi
      done
      if [ $found -eq 0 ]; then
        if grep -l "AddressSanitizer" "$WORK"/fuzz-*.log >/dev/null 2>&1 && [ "$T" = "total" ]; then
          mkdir -p ${VERIF_ROOT:-/verif}/replays/C01; cp "$a" "${VERIF_ROOT:-/verif}/replays/C01/asan-$(basename "$a").osu"; echo "VIOLATION property=C01 replay=${VERIF_ROOT:-/verif}/replays/C01/asan-$(basename "$a").osu"; echo "  detail: AddressSanitizer report in $WORK (memory error not visible to the plain oracle)"; rc=1
        else
          echo "INCONCLUSIVE: fuzz artefact $a does not reproduce through the plain oracle"; [ $rc -eq 0 ] && rc=2
        fi
      fi ;;
    *) echo "INCONCLUSIVE: fuzz artefact $a (timeout / out of memory) - reported as exit 2, not as a violation"; [ $rc -eq 0 ] && rc=2 ;;
  esac
done
exit $rc
