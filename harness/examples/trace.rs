use rosu_verif::refmodel::framing::*;
fn main() {
    let b = std::fs::read(std::env::args().nth(1).unwrap()).unwrap();
    let text = decode_bytes(&b);
    let fr = frame(&text);
    let rej = rejected_in_trace(fr.version, &fr.trace);
    println!("version {}", fr.version);
    for ((s, l), r) in fr.trace.iter().zip(rej) { println!("{:?} {} {}", s, if r { "REJ" } else { "ok " }, l.chars().take(90).collect::<String>()); }
}
