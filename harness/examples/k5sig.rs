//! which control-point shapes with duplicates / adjacent typed points survive decode-encode-decode on this tree
use rosu_map::section::hit_objects::HitObjectKind;
use rosu_map::Beatmap;
use rosu_verif::engine::Tape;
use rosu_verif::gen::doc::{gen_accepted, Avoid};
use std::collections::BTreeMap;
static mut TALLY: [u32; 4] = [0; 4];
use rosu_map::section::hit_objects::{PathControlPoint, SplineType};
/// the segment start at i would be written in the implicit (duplicated point) form
fn implicit(c: &[PathControlPoint], i: usize) -> bool {
    let Some(t) = c[i].path_type else { return false };
    let last = c[..i].iter().rev().find_map(|p| p.path_type);
    if Some(t) != last || t.kind == SplineType::PerfectCurve { return false; }
    if i == c.len() - 1 { return false; }
    if i > 1 && c[i - 1].pos.x as i32 == c[i - 2].pos.x as i32 && c[i - 1].pos.y as i32 == c[i - 2].pos.y as i32 { return false; }
    true
}
fn precise(c: &[PathControlPoint]) -> bool {
    (1..c.len()).any(|i| implicit(c, i) && (c[i].pos == c[i - 1].pos || (i + 1 < c.len() && c[i + 1].path_type.is_some())))
}
fn main() {
    let mut stats: BTreeMap<String, (u32, u32, String)> = BTreeMap::new();
    let mut x = 0x1234567u64;
    for _ in 0..400000 {
        let tape: Vec<u8> = (0..900).map(|_| { x ^= x << 13; x ^= x >> 7; x ^= x << 17; (x >> 11) as u8 }).collect();
        let mut av = Avoid::ALL; av.k5 = false;
        let text = gen_accepted(&mut Tape::new(&tape), av, 3).text();
        let Ok(m1) = rosu_map::from_str::<Beatmap>(&text) else { continue };
        let Ok(enc) = m1.clone().encode_to_string() else { continue };
        let Ok(m2) = rosu_map::from_str::<Beatmap>(&enc) else { continue };
        if m1.hit_objects.len() != m2.hit_objects.len() { continue; }
        for (a, b) in m1.hit_objects.iter().zip(&m2.hit_objects) {
            let (HitObjectKind::Slider(p), HitObjectKind::Slider(q)) = (&a.kind, &b.kind) else { continue };
            let c = p.path.control_points();
            let mut sig = String::new();
            for (i, cp) in c.iter().enumerate() {
                if i > 0 && cp.pos == c[i - 1].pos { sig.push('='); } else if i > 0 { sig.push(' '); }
                sig.push_str(match cp.path_type { None => "u", Some(t) => match t.kind { rosu_map::section::hit_objects::SplineType::PerfectCurve => "P", rosu_map::section::hit_objects::SplineType::Catmull => "C", _ => "T" } });
            }
            if sig.contains('C') { continue; }
            let pv = precise(c);
            let okk = c == q.path.control_points();
            unsafe { TALLY[(pv as usize) * 2 + (okk as usize)] += 1; }
            if !pv && !okk { println!("FAIL OUTSIDE PRECISE: [{sig}] {}", text.lines().last().unwrap_or("")); }
            if !sig.contains('=') && !sig.contains("T T") && !sig.contains("P T") && !sig.contains("T P") && !sig.contains("C") { continue; }
            if sig.contains("C") { continue; }
            let ok = c == q.path.control_points();
            let e = stats.entry(sig).or_insert((0, 0, String::new()));
            if ok { e.0 += 1 } else { e.1 += 1; if e.2.is_empty() { e.2 = text.lines().last().unwrap_or("").to_string(); } }
        }
    }
    let mut v: Vec<_> = stats.into_iter().collect();
    v.sort_by_key(|x| std::cmp::Reverse(x.1 .0 + x.1 .1));
    let pred = |sig: &str| -> bool {
        // tokens
        let mut toks: Vec<(bool, bool)> = vec![]; // (typed, equal to previous)
        let mut eq = false;
        for ch in sig.chars() {
            match ch { '=' => eq = true, ' ' => eq = false, c => { toks.push((c != 'u', eq)); eq = false; } }
        }
        let n = toks.len();
        let a = (1..n).any(|i| toks[i].0 && toks[i].1 && i + 1 < n);
        let b = (1..n.saturating_sub(1)).any(|j| toks[j].0 && toks[j + 1].0);
        a || b
    };
    let (mut bad_outside, mut okonly_inside, mut inside) = (0, 0, 0);
    for (sig, (ok, bad, ex)) in v.iter() {
        if *bad > 0 && !pred(sig) { bad_outside += 1; println!("BAD OUTSIDE: {ok} ok {bad} bad [{sig}] {ex}"); }
        if pred(sig) { inside += 1; if *bad == 0 && *ok >= 20 { okonly_inside += 1; println!("ok-only inside: {ok} ok [{sig}]"); } }
    }
    unsafe { println!("precise predicate: outside&fail {} outside&ok {} inside&fail {} inside&ok {}", TALLY[0], TALLY[1], TALLY[2], TALLY[3]); }
    println!("shapes {}, inside predicate {inside}, failing shapes outside predicate {bad_outside}, ok-only (>=20 samples) inside {okonly_inside}", v.len());
}
