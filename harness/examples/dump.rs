fn main() {
    let b = std::fs::read(std::env::args().nth(1).unwrap()).unwrap();
    let m: rosu_map::Beatmap = rosu_map::from_bytes(&b).unwrap();
    for h in &m.hit_objects { println!("{:?}", h); }
    println!("cp {:?}", m.control_points);
}
