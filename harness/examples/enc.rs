fn main() {
    let b = std::fs::read(std::env::args().nth(1).unwrap()).unwrap();
    let mut m: rosu_map::Beatmap = rosu_map::from_bytes(&b).unwrap();
    println!("{}", m.encode_to_string().unwrap());
}
