fn main() {
    let text = std::fs::read_to_string(std::env::args().nth(1).unwrap()).unwrap();
    let m: rosu_map::Beatmap = rosu_map::from_str(&text).unwrap();
    let out = m.clone().encode_to_string().unwrap();
    let mut on = false;
    for l in out.lines() { if l.starts_with('[') { on = l == "[TimingPoints]"; } if on { println!("{l}"); } }
}
