use rosu_map::section::general::GameMode;
use rosu_map::section::hit_objects::*;
use rosu_map::util::Pos;
fn main() {
    let a: Vec<f32> = std::env::args().skip(1).map(|s| s.parse().unwrap()).collect();
    let pts: Vec<PathControlPoint> = a.chunks(2).enumerate().map(|(i, c)| PathControlPoint { pos: Pos::new(c[0], c[1]), path_type: if i == 0 { Some(PathType::PERFECT_CURVE) } else { None } }).collect();
    let c = Curve::new(GameMode::Taiko, &pts, None, &mut CurveBuffers::default());
    println!("{} pts dist {} : {:?}", c.path().len(), c.dist(), &c.path()[..c.path().len().min(6)]);
    let v: Vec<(f64,f64)> = pts.iter().map(|p| (p.pos.x as f64, p.pos.y as f64)).collect();
    let arc = rosu_verif::refmodel::curve_exact::arc_through(v[0], v[1], v[2]);
    println!("{:?} len {:?}", arc, arc.as_ref().map(|a| a.length()));
}
