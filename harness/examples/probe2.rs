use rosu_map::section::general::GameMode;
use rosu_map::section::hit_objects::*;
fn main() {
    let v: serde_json::Value = serde_json::from_slice(&std::fs::read(std::env::args().nth(1).unwrap()).unwrap()).unwrap();
    let pts = rosu_verif::gen::curve::points_from_json(&v["points"]).unwrap();
    let mode = rosu_verif::gen::curve::mode_from_name(v["mode"].as_str().unwrap()).unwrap();
    for k in 1..=pts.len() {
        let c = Curve::new(mode, &pts[..k], v["expected_len"].as_f64(), &mut CurveBuffers::default());
        println!("first {k}: {} pts dist {} : {:?} lengths {:?}", c.path().len(), c.dist(), &c.path()[..c.path().len().min(8)], &c.lengths()[..c.lengths().len().min(8)]);
    }
}
