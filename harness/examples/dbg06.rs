use rosu_verif::refmodel::framing::*;
fn main() {
    let text = std::fs::read_to_string(std::env::args().nth(1).unwrap()).unwrap();
    let fr = frame(&text);
    println!("{:?}", fr);
    println!("{:?}", rejected_in_trace(fr.version, &fr.trace));
}
