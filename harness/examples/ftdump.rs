//! Dump the case a generator-tape artefact (.ftape) decodes to: `ftdump <ID> <file>`.
use rosu_verif::engine::{Ctx, Tier};
fn main() {
    let a: Vec<String> = std::env::args().collect();
    let id: &'static str = Box::leak(a[1].clone().into_boxed_str());
    let bytes = std::fs::read(&a[2]).unwrap();
    let mut ctx = Ctx::new(id, Tier::Quick, 0);
    match rosu_verif::props::replay_ftape(id, &mut ctx, &bytes) {
        Ok(k) => println!("ok {k:?}"),
        Err(f) => {
            println!("{}", f.msg);
            println!("{}", String::from_utf8_lossy(&f.artifact));
        }
    }
}
