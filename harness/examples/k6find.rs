//! Search a byte tape on which the C15 -0 probe generator yields a case of the known finding
//! c15.negative_zero_time; prints the regress JSON (the tape in hex plus the rendered document).
use rosu_verif::engine::Tape;
use rosu_verif::props::c15;
fn main() {
    let mut x: u64 = 0x9e3779b97f4a7c15;
    for len in [24usize, 32, 48, 64, 96] {
        for _ in 0..20000 {
            let mut tape = vec![0u8; len];
            for b in tape.iter_mut() {
                x ^= x << 13;
                x ^= x >> 7;
                x ^= x << 17;
                // sparse tapes: most choices stay the simplest one
                *b = if x & 3 == 0 { (x >> 8) as u8 } else { 0 };
            }
            let (d, k) = c15::gen_case_neg_zero(&mut Tape::new(&tape));
            if c15::evaluate(&d, k, None).is_err() && c15::classify_k6(&d, k) {
                let hex: String = tape.iter().map(|b| format!("{b:02x}")).collect();
                let v = serde_json::json!({"probe": "neg_zero", "replay_tape_hex": hex, "shift_ms": k, "text": c15::render(&d, k)});
                println!("{}", serde_json::to_string_pretty(&v).unwrap());
                return;
            }
        }
    }
    eprintln!("none found");
    std::process::exit(1);
}
