use rosu_map::section::general::GameMode;
use rosu_map::section::hit_objects::{Curve, CurveBuffers, PathControlPoint, PathType};
use rosu_map::util::Pos;
fn main() {
    let v: Vec<f32> = std::env::args().skip(1).map(|s| s.parse().unwrap()).collect();
    let pts = vec![
        PathControlPoint { pos: Pos::new(v[0], v[1]), path_type: Some(PathType::PERFECT_CURVE) },
        PathControlPoint { pos: Pos::new(v[2], v[3]), path_type: None },
        PathControlPoint { pos: Pos::new(v[4], v[5]), path_type: None },
    ];
    let c = Curve::new(GameMode::Taiko, &pts, None, &mut CurveBuffers::default());
    println!("n={} dist={}", c.path().len(), c.dist());
    for p in c.path().iter().take(6) { println!("{:?}", p); }
    println!("...");
    for p in c.path().iter().rev().take(3) { println!("{:?}", p); }
    // f32 circumcentre as the crate computes it
    let (a, b, cc) = (pts[0].pos, pts[1].pos, pts[2].pos);
    let d = 2.0 * (a.x * (b - cc).y + b.x * (cc - a).y + cc.x * (a - b).y);
    let d64 = 2.0 * ((a.x as f64) * ((b.y - cc.y) as f64) + (b.x as f64) * ((cc.y - a.y) as f64) + (cc.x as f64) * ((a.y - b.y) as f64));
    println!("d(f32)={d} d(f64)={d64}");
}
