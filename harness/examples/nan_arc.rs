use rosu_map::section::hit_objects::HitObjectKind;
fn main() {
    let text = std::fs::read_to_string(std::env::args().nth(1).unwrap()).unwrap();
    let mut m: rosu_map::Beatmap = rosu_map::from_str(&text).unwrap();
    for h in m.hit_objects.iter_mut() {
        if let HitObjectKind::Slider(s) = &mut h.kind {
            let c = s.path.curve();
            println!("points {} dist {} first {:?} last {:?}", c.path().len(), c.dist(), c.path().first(), c.path().last());
        }
    }
    let out = m.clone().encode_to_string().unwrap();
    println!("{}", out.lines().filter(|l| l.contains("NaN")).collect::<Vec<_>>().join("\n"));
    let m2: rosu_map::Beatmap = rosu_map::from_str(&out).unwrap();
    println!("objects before {} after {}", m.hit_objects.len(), m2.hit_objects.len());
}
