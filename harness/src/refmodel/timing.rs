//! Reference model of `[TimingPoints]` line resolution (DESIGN Appendix A.3).

use super::ctrlpoints::{Lists, D, E, S, T};
use super::num::{pf64, pi32};

pub struct Model {
    pub lists: Lists,
    pend_time: f64,
    pt: Option<T>,
    pd: Option<D>,
    pe: Option<E>,
    ps: Option<S>,
    /// 0 osu 1 taiko 2 catch 3 mania - the mode known when a line is parsed
    pub mode: u8,
    /// default bank from `[General] SampleSet` seen so far (0 = None)
    pub def_bank: u8,
    pub def_vol: i32,
    // statistics for the non-trivial rule
    pub accepted: u32,
    pub rejected: u32,
    pub same_time_group: bool,
    pub accepted_times: Vec<f64>,
    pub nan_inherited: bool,
}

impl Model {
    pub fn new(mode: u8, def_bank: u8, def_vol: i32) -> Self {
        Self {
            lists: Lists::default(),
            pend_time: 0.0,
            pt: None,
            pd: None,
            pe: None,
            ps: None,
            mode,
            def_bank,
            def_vol,
            accepted: 0,
            rejected: 0,
            same_time_group: false,
            accepted_times: vec![],
            nan_inherited: false,
        }
    }

    pub fn flush(&mut self) {
        if let Some(x) = self.pt.take() {
            self.lists.add_t(x);
        }
        if let Some(x) = self.pd.take() {
            self.lists.add_d(x);
        }
        if let Some(x) = self.pe.take() {
            self.lists.add_e(x);
        }
        if let Some(x) = self.ps.take() {
            self.lists.add_s(x);
        }
    }

    /// feed one line of the section; returns whether it is accepted
    pub fn line(&mut self, line: &str) -> bool {
        let ok = self.line_inner(line);
        if ok {
            self.accepted += 1;
        } else {
            self.rejected += 1;
        }
        ok
    }

    fn line_inner(&mut self, line: &str) -> bool {
        let line = line.find("//").map_or(line, |i| &line[..i]).trim_end();
        let f: Vec<&str> = line.split(',').collect();
        if f.len() < 2 {
            return false;
        }
        let Some(time) = pf64(f[0], 2147483647.0) else { return false };
        let Ok(bl) = f[1].trim().parse::<f64>() else { return false };
        if bl < -2147483647.0 || bl > 2147483647.0 {
            return false;
        }
        let mult = if bl < 0.0 { 100.0 / -bl } else { 1.0 };
        let mut sig = 4u32;
        if let Some(x) = f.get(2) {
            if x.chars().next() != Some('0') {
                match pi32(x) {
                    Some(n) if n >= 1 => sig = n as u32,
                    _ => return false,
                }
            }
        }
        let mut bank = match f.get(3) {
            None => self.def_bank,
            Some(x) => match pi32(x) {
                None => return false,
                Some(n @ 0..=3) => n as u8,
                Some(_) => self.def_bank,
            },
        };
        let idx = match f.get(4) {
            None => 0,
            Some(x) => match pi32(x) {
                None => return false,
                Some(n) => n,
            },
        };
        let vol = match f.get(5) {
            None => self.def_vol,
            Some(x) => match pi32(x) {
                None => return false,
                Some(n) => n,
            },
        };
        let uninh = f.get(6).map_or(true, |x| x.chars().next() == Some('1'));
        let (mut kiai, mut omit) = (false, false);
        if let Some(x) = f.get(7) {
            match x.parse::<i32>() {
                Ok(n) => {
                    kiai = n & 1 != 0;
                    omit = n & 8 != 0;
                }
                Err(_) => return false,
            }
        }
        if bank == 0 {
            bank = 1;
        }
        if uninh && bl.is_nan() {
            return false;
        }
        if (time - self.pend_time).abs() >= f64::EPSILON {
            self.flush();
        } else if self.pt.is_some() || self.pd.is_some() {
            self.same_time_group = true;
        }
        let t = T { time, beat_len: bl.clamp(6.0, 60000.0), omit, sig };
        let d = D { time, sv: mult.clamp(0.1, 10.0), ticks: !bl.is_nan() };
        let s = S { time, bank, vol: vol.clamp(0, 100), idx };
        let e = E {
            time,
            kiai,
            scroll: if self.mode == 1 || self.mode == 3 { mult.clamp(0.01, 10.0) } else { 1.0 },
        };
        if uninh {
            // a timing-change line only fills empty slots
            if self.pt.is_none() {
                self.pt = Some(t);
            }
            if self.pd.is_none() {
                self.pd = Some(d);
            }
            if self.ps.is_none() {
                self.ps = Some(s);
            }
            if self.pe.is_none() {
                self.pe = Some(e);
            }
        } else {
            // an inherited line overwrites
            if bl.is_nan() {
                self.nan_inherited = true;
            }
            self.pd = Some(d);
            self.ps = Some(s);
            self.pe = Some(e);
        }
        self.pend_time = time;
        self.accepted_times.push(time);
        true
    }
}
