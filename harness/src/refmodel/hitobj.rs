//! Reference parser for `[HitObjects]` lines (DESIGN Appendix A.5), written
//! from the legacy grammar; independent of rosu-map's parser.

use super::num::{pf32, pf64, pi32, MAXV};
use rosu_map::section::hit_objects::hit_samples::{HitSampleInfo, HitSampleInfoName, SampleBank};
use rosu_map::section::hit_objects::{HitObject, HitObjectKind, SplineType};

#[derive(Clone, Debug, PartialEq)]
pub struct MSample {
    /// "hitnormal" / "hitwhistle" / "hitfinish" / "hitclap" / "file:<name>"
    pub name: String,
    pub bank: u8,
    pub bank_specified: bool,
    pub idx: i32,
    pub vol: i32,
    pub suffix: Option<u32>,
    pub layered: bool,
}

pub type Cp = (f32, f32, Option<String>);

#[derive(Clone, Debug, PartialEq)]
pub enum MKind {
    Circle { x: f32, y: f32, nc: bool, co: i32 },
    Slider { x: f32, y: f32, nc: bool, co: i32, cps: Vec<Cp>, len: Option<f64>, repeats: i32, nodes: Vec<Vec<MSample>> },
    Spinner { dur: f64, nc: bool },
    Hold { x: f32, dur: f64 },
}

#[derive(Clone, Debug, PartialEq)]
pub struct MObj {
    pub time: f64,
    pub kind: MKind,
    pub samples: Vec<MSample>,
}

#[derive(Clone, Default, Debug)]
pub struct Banks {
    pub file: Option<String>,
    pub normal: Option<u8>,
    pub add: Option<u8>,
    pub vol: i32,
    pub idx: i32,
}

fn bank_of(n: i32) -> u8 {
    match n {
        0 => 0,
        1 => 1,
        2 => 2,
        3 => 3,
        _ => 1,
    }
}

impl Banks {
    /// `normal:addition[:index[:volume[:file]]]`; false = rejected
    pub fn read(&mut self, items: &[&str], banks_only: bool) -> bool {
        let Some(first) = items.first().filter(|s| !s.is_empty()) else { return true };
        let Some(b) = pi32(first) else { return false };
        let Some(second) = items.get(1) else { return false };
        let Some(a) = pi32(second) else { return false };
        let nb = Some(bank_of(b)).filter(|b| *b != 0);
        let ab = Some(bank_of(a)).filter(|b| *b != 0);
        self.normal = nb;
        self.add = ab.or(nb);
        if banks_only {
            return true;
        }
        if let Some(x) = items.get(2) {
            match pi32(x) {
                Some(n) => self.idx = n,
                None => return false,
            }
        }
        if let Some(x) = items.get(3) {
            match pi32(x) {
                Some(n) => self.vol = n.max(0),
                None => return false,
            }
        }
        self.file = items.get(4).map(|s| s.to_string());
        true
    }

    pub fn samples(&self, sound: u8) -> Vec<MSample> {
        let mk = |name: &str, bank: Option<u8>, idx: i32, vol: i32| MSample {
            name: name.into(),
            bank: bank.unwrap_or(1),
            bank_specified: bank.is_some(),
            idx,
            vol,
            suffix: if idx >= 2 { Some(idx as u32) } else { None },
            layered: false,
        };
        let mut v = vec![];
        if let Some(f) = self.file.as_ref().filter(|f| !f.is_empty()) {
            v.push(mk(&format!("file:{f}"), None, 1, self.vol));
        } else {
            let mut s = mk("hitnormal", self.normal, self.idx, self.vol);
            s.layered = sound != 0 && sound & 1 == 0;
            v.push(s);
        }
        if sound & 4 != 0 {
            v.push(mk("hitfinish", self.add, self.idx, self.vol));
        }
        if sound & 2 != 0 {
            v.push(mk("hitwhistle", self.add, self.idx, self.vol));
        }
        if sound & 8 != 0 {
            v.push(mk("hitclap", self.add, self.idx, self.vol));
        }
        v
    }
}

/// a sample point (bank 1..3, volume, custom index) applied to a sample
pub fn apply_point(s: &mut MSample, bank: u8, vol: i32, idx: i32) {
    if s.name.starts_with("file:") {
        s.bank = 1;
        s.suffix = None;
        if s.vol == 0 {
            s.vol = vol.clamp(0, 100);
        }
        s.idx = 1;
        s.bank_specified = false;
        s.layered = false;
    } else {
        if s.idx == 0 {
            s.idx = idx;
            if s.idx >= 2 {
                s.suffix = Some(s.idx as u32);
            }
        }
        if s.vol == 0 {
            s.vol = vol.clamp(0, 100);
        }
        if !s.bank_specified {
            s.bank = bank;
            s.bank_specified = true;
        }
    }
}

pub fn path_type(tok: &str) -> String {
    let mut ch = tok.chars();
    match ch.next() {
        Some('B') => {
            if let Ok(d) = ch.as_str().parse::<i32>() {
                if d > 0 {
                    return format!("B{d}");
                }
            }
            "B".into()
        }
        Some('L') => "L".into(),
        Some('P') => "P".into(),
        _ => "C".into(),
    }
}

fn read_point(tok: &str, ox: f32, oy: f32) -> Option<(f32, f32)> {
    let mut it = tok.split(':');
    let x = it.next()?;
    let y = it.next()?;
    let x = pf64(x, 131072.0);
    let y = pf64(y, 131072.0);
    let (x, y) = (x?, y?);
    Some((x as i32 as f32 - ox, y as i32 as f32 - oy))
}

/// `T|x:y|...` -> control points relative to (ox, oy); None = rejected
pub fn convert_path(s: &str, ox: f32, oy: f32) -> Option<Vec<Cp>> {
    let toks: Vec<&str> = s.split('|').collect();
    let mut out = vec![];
    let mut start = 0usize;
    let mut first = true;
    let seg = |toks: &[&str], end: Option<&str>, first: bool, out: &mut Vec<Cp>| -> Option<()> {
        let mut ty = path_type(toks[0]);
        let mut v: Vec<Cp> = vec![];
        if first {
            v.push((0.0, 0.0, None));
        }
        for t in &toks[1..] {
            let p = read_point(t, ox, oy)?;
            v.push((p.0, p.1, None));
        }
        let epl = if let Some(e) = end {
            let p = read_point(e, ox, oy)?;
            v.push((p.0, p.1, None));
            1
        } else {
            0
        };
        if ty == "P" {
            if v.len() == 3 {
                let (a, b, c) = (&v[0], &v[1], &v[2]);
                if ((b.1 - a.1) * (c.0 - a.0) - (b.0 - a.0) * (c.1 - a.1)).abs() < f32::EPSILON {
                    ty = "L".into();
                }
            } else {
                ty = "B".into();
            }
        }
        if v.is_empty() {
            return None;
        }
        v[0].2 = Some(ty.clone());
        let n = v.len() - epl; // vertices that belong to this segment
        let mut s0 = 0usize;
        let mut i = 1usize;
        while i < n {
            let dup = v[i].0 == v[i - 1].0 && v[i].1 == v[i - 1].1;
            if dup && !(ty == "C" && i > 1) && i != n - 1 {
                v[i - 1].2 = Some(ty.clone());
                out.extend_from_slice(&v[s0..i]);
                s0 = i + 1;
            }
            i += 1;
        }
        let end_idx = n.max(1);
        if end_idx > s0 {
            out.extend_from_slice(&v[s0..end_idx]);
        }
        Some(())
    };
    let mut idx = 1usize;
    while idx < toks.len() {
        let c = toks[idx].chars().next()?; // empty token -> rejected
        if c.is_ascii_alphabetic() {
            seg(&toks[start..idx], toks.get(idx + 1).copied(), first, &mut out)?;
            start = idx;
            first = false;
        }
        idx += 1;
    }
    if idx > start {
        seg(&toks[start..idx.min(toks.len())], None, first, &mut out)?;
    }
    Some(out)
}

/// parser context: the type bits of the previous *accepted* object
#[derive(Default)]
pub struct LineCtx {
    pub last: Option<i32>,
}

pub fn parse_line(ctx: &mut LineCtx, line: &str) -> Option<MObj> {
    let line = line.find("//").map_or(line, |i| &line[..i]).trim_end();
    let f: Vec<&str> = line.split(',').collect();
    if f.len() < 5 {
        return None;
    }
    let x = pf32(f[0], 131072.0)? as i32 as f32;
    let y = pf32(f[1], 131072.0)? as i32 as f32;
    let time = pf64(f[2], MAXV)?;
    let ty: i32 = f[3].parse().ok()?;
    let co = (ty & 0x70) >> 4;
    let nc = ty & 4 != 0;
    let t = ty & !0x70 & !4;
    let sound = (f[4].parse::<i32>().ok()? & 0xFF) as u8;
    let mut banks = Banks::default();
    let first = ctx.last.is_none();
    let after_spinner = ctx.last.map_or(false, |l| l & 8 != 0);
    let kind = if t & 1 != 0 {
        if let Some(s) = f.get(5) {
            if !banks.read(&s.split(':').collect::<Vec<_>>(), false) {
                return None;
            }
        }
        MKind::Circle { x, y, nc: first || after_spinner || nc, co: if nc { co } else { 0 } }
    } else if t & 2 != 0 {
        let ps = f.get(5)?;
        let rs = f.get(6)?;
        let r = pi32(rs)?;
        if r > 9000 {
            return None;
        }
        let repeats = (r - 1).max(0);
        let mut len = None;
        if let Some(s) = f.get(7) {
            let l = pf64(s, 131072.0)?.max(0.0);
            if l.abs() >= f64::EPSILON {
                len = Some(l);
            }
        }
        let f8 = f.get(8).copied();
        let f9 = f.get(9).copied();
        if let Some(s) = f.get(10) {
            if !banks.read(&s.split(':').collect::<Vec<_>>(), true) {
                return None;
            }
        }
        let nodes = repeats as usize + 2;
        let mut nb = vec![banks.clone(); nodes];
        if let Some(s) = f9.filter(|s| !s.is_empty()) {
            for (b, set) in nb.iter_mut().zip(s.split('|')) {
                if !b.read(&set.split(':').collect::<Vec<_>>(), false) {
                    return None;
                }
            }
        }
        let mut ns = vec![sound; nodes];
        if let Some(s) = f8.filter(|s| !s.is_empty()) {
            for (x, it) in ns.iter_mut().zip(s.split('|')) {
                *x = it.parse::<i32>().map(|n| (n & 0xFF) as u8).unwrap_or(0);
            }
        }
        let node_samples: Vec<Vec<MSample>> = nb.iter().zip(ns.iter()).map(|(b, s)| b.samples(*s)).collect();
        let cps = convert_path(ps, x, y)?;
        MKind::Slider { x, y, nc: first || after_spinner || nc, co: if nc { co } else { 0 }, cps, len, repeats, nodes: node_samples }
    } else if t & 8 != 0 {
        let e = pf64(f.get(5)?, MAXV)?;
        if let Some(s) = f.get(6) {
            if !banks.read(&s.split(':').collect::<Vec<_>>(), false) {
                return None;
            }
        }
        MKind::Spinner { dur: (e - time).max(0.0), nc }
    } else if t & 128 != 0 {
        let mut end = time;
        if let Some(s) = f.get(5).filter(|s| !s.is_empty()) {
            let items: Vec<&str> = s.split(':').collect();
            let e = pf64(items[0], MAXV)?;
            end = time.max(e);
            if !banks.read(&items[1..], false) {
                return None;
            }
        }
        MKind::Hold { x, dur: end - time }
    } else {
        return None;
    };
    ctx.last = Some(t);
    Some(MObj { time, kind, samples: banks.samples(sound) })
}

// ---------- the implementation's objects in model terms ----------
pub fn bank_u8(b: SampleBank) -> u8 {
    match b {
        SampleBank::None => 0,
        SampleBank::Normal => 1,
        SampleBank::Soft => 2,
        SampleBank::Drum => 3,
    }
}

pub fn conv_sample(s: &HitSampleInfo) -> MSample {
    let name = match &s.name {
        HitSampleInfoName::Default(d) => d.to_lowercase_str().to_string(),
        HitSampleInfoName::File(f) => format!("file:{f}"),
    };
    MSample {
        name,
        bank: bank_u8(s.bank),
        bank_specified: s.bank_specified,
        idx: s.custom_sample_bank,
        vol: s.volume,
        suffix: s.suffix.map(|n| n.get()),
        layered: s.is_layered,
    }
}

pub fn conv(h: &HitObject) -> MObj {
    let kind = match &h.kind {
        HitObjectKind::Circle(c) => MKind::Circle { x: c.pos.x, y: c.pos.y, nc: c.new_combo, co: c.combo_offset },
        HitObjectKind::Slider(s) => MKind::Slider {
            x: s.pos.x,
            y: s.pos.y,
            nc: s.new_combo,
            co: s.combo_offset,
            cps: s
                .path
                .control_points()
                .iter()
                .map(|c| {
                    (
                        c.pos.x,
                        c.pos.y,
                        c.path_type.map(|t| match t.kind {
                            SplineType::BSpline => t.degree.map_or("B".to_string(), |d| format!("B{d}")),
                            SplineType::Linear => "L".into(),
                            SplineType::PerfectCurve => "P".into(),
                            SplineType::Catmull => "C".into(),
                        }),
                    )
                })
                .collect(),
            len: s.path.expected_dist(),
            repeats: s.repeat_count,
            nodes: s.node_samples.iter().map(|n| n.iter().map(conv_sample).collect()).collect(),
        },
        HitObjectKind::Spinner(s) => MKind::Spinner { dur: s.duration, nc: s.new_combo },
        HitObjectKind::Hold(h) => MKind::Hold { x: h.pos_x, dur: h.duration },
    };
    MObj { time: h.start_time, kind, samples: h.samples.iter().map(conv_sample).collect() }
}
