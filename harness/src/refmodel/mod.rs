pub mod ctrlpoints;
