pub mod ctrlpoints;
pub mod num;
pub mod timing;
