pub mod ctrlpoints;
pub mod num;
pub mod timing;
pub mod curve_exact;
pub mod framing;
pub mod kv;
pub mod hitobj;
