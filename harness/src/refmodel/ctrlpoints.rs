//! Reference model of the control-point collection (DESIGN Appendix A.4).
//! Four lists kept ordered by linear scans; written from the property text.

#[derive(Clone, Debug, PartialEq)]
pub struct T {
    pub time: f64,
    pub beat_len: f64,
    pub omit: bool,
    pub sig: u32,
}
#[derive(Clone, Debug, PartialEq)]
pub struct D {
    pub time: f64,
    pub sv: f64,
    pub ticks: bool,
}
#[derive(Clone, Debug, PartialEq)]
pub struct E {
    pub time: f64,
    pub kiai: bool,
    pub scroll: f64,
}
#[derive(Clone, Debug, PartialEq)]
pub struct S {
    pub time: f64,
    pub bank: u8, // 0 none 1 normal 2 soft 3 drum
    pub vol: i32,
    pub idx: i32,
}

#[derive(Clone, Debug, Default, PartialEq)]
pub struct Lists {
    pub t: Vec<T>,
    pub d: Vec<D>,
    pub e: Vec<E>,
    pub s: Vec<S>,
}

/// latest element with time <= `time` (numeric comparison)
pub fn active<X>(v: &[X], time: f64, tm: impl Fn(&X) -> f64) -> Option<&X> {
    let mut r = None;
    for x in v {
        if tm(x) <= time {
            r = Some(x);
        }
    }
    r
}

/// replace the element with the same time, or insert keeping the order
fn put<X>(v: &mut Vec<X>, x: X, tm: impl Fn(&X) -> f64) {
    let t = tm(&x);
    if let Some(i) = v.iter().position(|y| tm(y) == t) {
        v[i] = x;
    } else {
        let i = v.iter().position(|y| tm(y) > t).unwrap_or(v.len());
        v.insert(i, x);
    }
}

impl Lists {
    pub fn add_t(&mut self, x: T) {
        put(&mut self.t, x, |y| y.time);
    }
    pub fn add_d(&mut self, x: D) {
        let (sv, tk) = active(&self.d, x.time, |y| y.time).map_or((1.0, true), |a| (a.sv, a.ticks));
        if x.ticks == tk && (x.sv - sv).abs() < f64::EPSILON {
            return;
        }
        put(&mut self.d, x, |y| y.time);
    }
    pub fn add_e(&mut self, x: E) {
        let (k, sc) =
            active(&self.e, x.time, |y| y.time).map_or((false, 1.0), |a| (a.kiai, a.scroll));
        if x.kiai == k && (x.scroll - sc).abs() < f64::EPSILON {
            return;
        }
        put(&mut self.e, x, |y| y.time);
    }
    pub fn add_s(&mut self, x: S) {
        if let Some(a) = active(&self.s, x.time, |y| y.time) {
            if a.bank == x.bank && a.vol == x.vol && a.idx == x.idx {
                return;
            }
        }
        put(&mut self.s, x, |y| y.time);
    }

    // lookups
    pub fn timing_at(&self, time: f64) -> Option<&T> {
        active(&self.t, time, |y| y.time).or(self.t.first())
    }
    pub fn sample_at(&self, time: f64) -> Option<&S> {
        active(&self.s, time, |y| y.time).or(self.s.first())
    }
    pub fn difficulty_at(&self, time: f64) -> Option<&D> {
        active(&self.d, time, |y| y.time)
    }
    pub fn effect_at(&self, time: f64) -> Option<&E> {
        active(&self.e, time, |y| y.time)
    }
}

use rosu_map::section::hit_objects::hit_samples::SampleBank;
use rosu_map::section::timing_points::{
    ControlPoints, DifficultyPoint, EffectPoint, SamplePoint, TimingPoint,
};

pub fn bank_u8(b: SampleBank) -> u8 {
    match b {
        SampleBank::None => 0,
        SampleBank::Normal => 1,
        SampleBank::Soft => 2,
        SampleBank::Drum => 3,
    }
}
pub fn u8_bank(b: u8) -> SampleBank {
    match b {
        0 => SampleBank::None,
        1 => SampleBank::Normal,
        2 => SampleBank::Soft,
        _ => SampleBank::Drum,
    }
}

pub fn t_of(p: &TimingPoint) -> T {
    T {
        time: p.time,
        beat_len: p.beat_len,
        omit: p.omit_first_bar_line,
        sig: p.time_signature.numerator.get(),
    }
}
pub fn d_of(p: &DifficultyPoint) -> D {
    D {
        time: p.time,
        sv: p.slider_velocity,
        ticks: p.generate_ticks,
    }
}
pub fn e_of(p: &EffectPoint) -> E {
    E {
        time: p.time,
        kiai: p.kiai,
        scroll: p.scroll_speed,
    }
}
pub fn s_of(p: &SamplePoint) -> S {
    S {
        time: p.time,
        bank: bank_u8(p.sample_bank),
        vol: p.sample_volume,
        idx: p.custom_sample_bank,
    }
}

/// snapshot of the implementation's lists in model terms
pub fn lists_of(cp: &ControlPoints) -> Lists {
    Lists {
        t: cp.timing_points.iter().map(t_of).collect(),
        d: cp.difficulty_points.iter().map(d_of).collect(),
        e: cp.effect_points.iter().map(e_of).collect(),
        s: cp.sample_points.iter().map(s_of).collect(),
    }
}

/// bit-exact comparison of two list sets (so that -0.0 / NaN are not hidden)
pub fn lists_eq(a: &Lists, b: &Lists) -> bool {
    fn feq(a: f64, b: f64) -> bool {
        a.to_bits() == b.to_bits() || a == b
    }
    a.t.len() == b.t.len()
        && a.d.len() == b.d.len()
        && a.e.len() == b.e.len()
        && a.s.len() == b.s.len()
        && a.t.iter().zip(&b.t).all(|(x, y)| {
            feq(x.time, y.time) && feq(x.beat_len, y.beat_len) && x.omit == y.omit && x.sig == y.sig
        })
        && a.d
            .iter()
            .zip(&b.d)
            .all(|(x, y)| feq(x.time, y.time) && feq(x.sv, y.sv) && x.ticks == y.ticks)
        && a.e
            .iter()
            .zip(&b.e)
            .all(|(x, y)| feq(x.time, y.time) && x.kiai == y.kiai && feq(x.scroll, y.scroll))
        && a.s.iter().zip(&b.s).all(|(x, y)| {
            feq(x.time, y.time) && x.bank == y.bank && x.vol == y.vol && x.idx == y.idx
        })
}
