//! Reference model of file framing (DESIGN Appendix A.1): BOM, line splitting,
//! version line, first header, section loop. Produces the trace
//! `[(Section, line)]` of the lines that reach a section parser.

use rosu_map::section::Section;

#[derive(Copy, Clone, Debug, PartialEq, Eq)]
pub enum Enc {
    Utf8,
    Utf8Bom,
    Utf16Le,
    Utf16Be,
}

pub const ENCS: [Enc; 4] = [Enc::Utf8, Enc::Utf8Bom, Enc::Utf16Le, Enc::Utf16Be];

impl Enc {
    pub fn name(self) -> &'static str {
        match self {
            Enc::Utf8 => "utf8",
            Enc::Utf8Bom => "utf8-bom",
            Enc::Utf16Le => "utf16le",
            Enc::Utf16Be => "utf16be",
        }
    }
}

pub fn encode_text(text: &str, enc: Enc) -> Vec<u8> {
    match enc {
        Enc::Utf8 => text.as_bytes().to_vec(),
        Enc::Utf8Bom => {
            let mut v = vec![0xEF, 0xBB, 0xBF];
            v.extend_from_slice(text.as_bytes());
            v
        }
        Enc::Utf16Le => {
            let mut v = vec![0xFF, 0xFE];
            for u in text.encode_utf16() {
                v.extend(u.to_le_bytes());
            }
            v
        }
        Enc::Utf16Be => {
            let mut v = vec![0xFE, 0xFF];
            for u in text.encode_utf16() {
                v.extend(u.to_be_bytes());
            }
            v
        }
    }
}

/// BOM sniffing + lossy conversion to text, independent of the crate's reader.
/// UTF-16: units are paired from the start, an odd tail byte is dropped, unpaired
/// surrogates become U+FFFD.
pub fn decode_bytes(bytes: &[u8]) -> String {
    if bytes.starts_with(&[0xEF, 0xBB, 0xBF]) {
        String::from_utf8_lossy(&bytes[3..]).into_owned()
    } else if bytes.starts_with(&[0xFF, 0xFE]) {
        let units: Vec<u16> = bytes[2..].chunks_exact(2).map(|c| u16::from_le_bytes([c[0], c[1]])).collect();
        String::from_utf16_lossy(&units)
    } else if bytes.starts_with(&[0xFE, 0xFF]) {
        let units: Vec<u16> = bytes[2..].chunks_exact(2).map(|c| u16::from_be_bytes([c[0], c[1]])).collect();
        String::from_utf16_lossy(&units)
    } else {
        String::from_utf8_lossy(bytes).into_owned()
    }
}

pub const SECTION_NAMES: [(&str, Section); 11] = [
    ("General", Section::General),
    ("Editor", Section::Editor),
    ("Metadata", Section::Metadata),
    ("Difficulty", Section::Difficulty),
    ("Events", Section::Events),
    ("TimingPoints", Section::TimingPoints),
    ("Colours", Section::Colors),
    ("HitObjects", Section::HitObjects),
    ("Variables", Section::Variables),
    ("CatchTheBeat", Section::CatchTheBeat),
    ("Mania", Section::Mania),
];

/// header recognition: exact match on `[Name]`
pub fn header(line: &str) -> Option<Section> {
    let inner = line.strip_prefix('[')?.strip_suffix(']')?;
    SECTION_NAMES.iter().find(|(n, _)| *n == inner).map(|(_, s)| *s)
}

pub const LATEST: i32 = 14;

#[derive(Clone, Debug, PartialEq)]
pub struct Framed {
    pub version: i32,
    pub trace: Vec<(Section, String)>,
    /// index (in the LF-split line list) of the first recognised header
    pub first_header_line: Option<usize>,
    /// index of the first non-blank line
    pub first_nonblank_line: Option<usize>,
    /// line indices (LF-split) of the lines in `trace`
    pub trace_lines: Vec<usize>,
}

/// split the text at LF and trim the end of every line (CR and blanks vanish)
pub fn split_lines(text: &str) -> Vec<&str> {
    let mut lines: Vec<&str> = text.split('\n').collect();
    if lines.last() == Some(&"") {
        lines.pop();
    }
    lines.into_iter().map(|l| l.trim_end()).collect()
}

pub fn frame(text: &str) -> Framed {
    let lines = split_lines(text);
    let mut i = 0;
    let mut version = LATEST;
    let mut use_curr = false;
    let mut first_nonblank_line = None;
    while i < lines.len() {
        let l = lines[i];
        i += 1;
        if l.is_empty() {
            continue;
        }
        first_nonblank_line = Some(i - 1);
        if l.starts_with("osu file format v") {
            let num = l.rsplit('v').next().unwrap_or("");
            match num.trim().parse::<i32>() {
                Ok(n) if n >= -i32::MAX => version = n,
                _ => use_curr = true,
            }
        } else {
            use_curr = true;
        }
        break;
    }
    let mut section = None;
    let mut first_header_line = None;
    if use_curr {
        section = header(lines[i - 1]);
        if section.is_some() {
            first_header_line = Some(i - 1);
        }
    }
    while section.is_none() && i < lines.len() {
        section = header(lines[i]);
        if section.is_some() {
            first_header_line = Some(i);
        }
        i += 1;
    }
    let mut trace = vec![];
    let mut trace_lines = vec![];
    let Some(mut sec) = section else {
        return Framed { version, trace, first_header_line, first_nonblank_line, trace_lines };
    };
    while i < lines.len() {
        let l = lines[i];
        i += 1;
        if l.is_empty() || l.trim_start().starts_with("//") {
            continue;
        }
        if let Some(s) = header(l) {
            sec = s;
            continue;
        }
        trace.push((sec, l.to_string()));
        trace_lines.push(i - 1);
    }
    Framed { version, trace, first_header_line, first_nonblank_line, trace_lines }
}

// ---- a DecodeBeatmap implementor that records which line reaches which parser ----

use rosu_map::{DecodeBeatmap, DecodeState};
use std::convert::Infallible;

pub struct Rec {
    pub version: i32,
    pub trace: Vec<(Section, String)>,
}
pub struct RecState {
    version: i32,
    trace: Vec<(Section, String)>,
}
impl DecodeState for RecState {
    fn create(version: i32) -> Self {
        Self { version, trace: vec![] }
    }
}
impl From<RecState> for Rec {
    fn from(s: RecState) -> Self {
        Rec { version: s.version, trace: s.trace }
    }
}
macro_rules! rec {
    ($($f:ident => $s:ident),*) => {
        $( fn $f(state: &mut Self::State, line: &str) -> Result<(), Self::Error> {
            state.trace.push((Section::$s, line.to_string()));
            Ok(())
        } )*
    }
}
impl DecodeBeatmap for Rec {
    type Error = Infallible;
    type State = RecState;
    rec!(parse_general => General, parse_editor => Editor, parse_metadata => Metadata, parse_difficulty => Difficulty,
         parse_events => Events, parse_timing_points => TimingPoints, parse_colors => Colors, parse_hit_objects => HitObjects,
         parse_variables => Variables, parse_catch_the_beat => CatchTheBeat, parse_mania => Mania);
}

/// drive `Beatmap`'s public parse functions with a predicted trace
pub fn drive_beatmap(version: i32, trace: &[(Section, String)]) -> rosu_map::Beatmap {
    use rosu_map::{Beatmap, BeatmapState};
    let mut st = BeatmapState::create(version);
    for (sec, line) in trace {
        let _ = match sec {
            Section::General => Beatmap::parse_general(&mut st, line),
            Section::Editor => Beatmap::parse_editor(&mut st, line),
            Section::Metadata => Beatmap::parse_metadata(&mut st, line),
            Section::Difficulty => Beatmap::parse_difficulty(&mut st, line),
            Section::Events => Beatmap::parse_events(&mut st, line),
            Section::TimingPoints => Beatmap::parse_timing_points(&mut st, line),
            Section::Colors => Beatmap::parse_colors(&mut st, line),
            Section::HitObjects => Beatmap::parse_hit_objects(&mut st, line),
            Section::Variables => Beatmap::parse_variables(&mut st, line),
            Section::CatchTheBeat => Beatmap::parse_catch_the_beat(&mut st, line),
            Section::Mania => Beatmap::parse_mania(&mut st, line),
        };
    }
    st.into()
}

/// which lines of the trace are rejected at their position by Beatmap's parsers
pub fn rejected_in_trace(version: i32, trace: &[(Section, String)]) -> Vec<bool> {
    use rosu_map::{Beatmap, BeatmapState};
    let mut st = BeatmapState::create(version);
    trace
        .iter()
        .map(|(sec, line)| {
            let r = match sec {
                Section::General => Beatmap::parse_general(&mut st, line),
                Section::Editor => Beatmap::parse_editor(&mut st, line),
                Section::Metadata => Beatmap::parse_metadata(&mut st, line),
                Section::Difficulty => Beatmap::parse_difficulty(&mut st, line),
                Section::Events => Beatmap::parse_events(&mut st, line),
                Section::TimingPoints => Beatmap::parse_timing_points(&mut st, line),
                Section::Colors => Beatmap::parse_colors(&mut st, line),
                Section::HitObjects => Beatmap::parse_hit_objects(&mut st, line),
                Section::Variables => Beatmap::parse_variables(&mut st, line),
                Section::CatchTheBeat => Beatmap::parse_catch_the_beat(&mut st, line),
                Section::Mania => Beatmap::parse_mania(&mut st, line),
            };
            r.is_err()
        })
        .collect()
}
