//! Exact (f64) evaluation of the curves a slider segment denotes, and
//! polyline distances. Independent of rosu-map's approximators.

pub type P = (f64, f64);

pub fn dist(a: P, b: P) -> f64 {
    ((a.0 - b.0).powi(2) + (a.1 - b.1).powi(2)).sqrt()
}

pub fn seg_dist(p: P, a: P, b: P) -> f64 {
    let (dx, dy) = (b.0 - a.0, b.1 - a.1);
    let l2 = dx * dx + dy * dy;
    let t = if l2 == 0.0 { 0.0 } else { (((p.0 - a.0) * dx + (p.1 - a.1) * dy) / l2).clamp(0.0, 1.0) };
    ((p.0 - a.0 - t * dx).powi(2) + (p.1 - a.1 - t * dy).powi(2)).sqrt()
}

pub fn poly_dist(p: P, poly: &[P]) -> f64 {
    if poly.is_empty() {
        return f64::INFINITY;
    }
    if poly.len() == 1 {
        return dist(p, poly[0]);
    }
    poly.windows(2).map(|w| seg_dist(p, w[0], w[1])).fold(f64::INFINITY, f64::min)
}

/// directed distances (max over a's vertices of distance to polyline b, and vice versa).
/// For a -> b the *vertices and midpoints* of a are probed, which bounds the distance of
/// the whole polyline a to b up to the curvature of b between samples.
pub fn hausdorff(a: &[P], b: &[P]) -> (f64, f64) {
    let probe = |x: &[P], y: &[P]| {
        let mut m: f64 = 0.0;
        for (i, p) in x.iter().enumerate() {
            m = m.max(poly_dist(*p, y));
            if let Some(q) = x.get(i + 1) {
                let mid = ((p.0 + q.0) / 2.0, (p.1 + q.1) / 2.0);
                m = m.max(poly_dist(mid, y));
            }
        }
        m
    };
    (probe(a, b), probe(b, a))
}

/// de Casteljau evaluation of the Bezier curve with the given control points
pub fn bezier_at(ctrl: &[P], t: f64) -> P {
    let mut w: Vec<P> = ctrl.to_vec();
    let n = w.len();
    for k in 1..n {
        for i in 0..n - k {
            w[i] = ((1.0 - t) * w[i].0 + t * w[i + 1].0, (1.0 - t) * w[i].1 + t * w[i + 1].1);
        }
    }
    w[0]
}

pub fn bezier_samples(ctrl: &[P], n: usize) -> Vec<P> {
    (0..=n).map(|i| bezier_at(ctrl, i as f64 / n as f64)).collect()
}

#[derive(Clone, Debug)]
pub struct Arc {
    pub centre: P,
    pub radius: f64,
    pub theta_start: f64,
    /// signed sweep (direction * range)
    pub sweep: f64,
}

impl Arc {
    pub fn length(&self) -> f64 {
        self.radius * self.sweep.abs()
    }
    pub fn samples(&self, n: usize) -> Vec<P> {
        (0..=n)
            .map(|i| {
                let th = self.theta_start + self.sweep * (i as f64 / n as f64);
                (self.centre.0 + self.radius * th.cos(), self.centre.1 + self.radius * th.sin())
            })
            .collect()
    }
}

pub fn cross(a: P, b: P, c: P) -> f64 {
    (b.1 - a.1) * (c.0 - a.0) - (b.0 - a.0) * (c.1 - a.1)
}

/// circle through a, b, c traversed from a through b to c; None if exactly collinear
pub fn arc_through(a: P, b: P, c: P) -> Option<Arc> {
    if cross(a, b, c) == 0.0 {
        return None;
    }
    let d = 2.0 * (a.0 * (b.1 - c.1) + b.0 * (c.1 - a.1) + c.0 * (a.1 - b.1));
    let (a2, b2, c2) = (a.0 * a.0 + a.1 * a.1, b.0 * b.0 + b.1 * b.1, c.0 * c.0 + c.1 * c.1);
    let cx = (a2 * (b.1 - c.1) + b2 * (c.1 - a.1) + c2 * (a.1 - b.1)) / d;
    let cy = (a2 * (c.0 - b.0) + b2 * (a.0 - c.0) + c2 * (b.0 - a.0)) / d;
    let radius = dist(a, (cx, cy));
    let ts = (a.1 - cy).atan2(a.0 - cx);
    let mut te = (c.1 - cy).atan2(c.0 - cx);
    while te < ts {
        te += 2.0 * std::f64::consts::PI;
    }
    let mut dir = 1.0;
    let mut range = te - ts;
    // which side of a->c does b lie on
    let o = (c.1 - a.1, -(c.0 - a.0));
    if o.0 * (b.0 - a.0) + o.1 * (b.1 - a.1) < 0.0 {
        dir = -1.0;
        range = 2.0 * std::f64::consts::PI - range;
    }
    Some(Arc { centre: (cx, cy), radius, theta_start: ts, sweep: dir * range })
}

fn catmull_point(v1: P, v2: P, v3: P, v4: P, t: f64) -> P {
    let f = |a: f64, b: f64, c: f64, d: f64| {
        0.5 * (2.0 * b + (-a + c) * t + (2.0 * a - 5.0 * b + 4.0 * c - d) * t * t + (-a + 3.0 * b - 3.0 * c + d) * t * t * t)
    };
    (f(v1.0, v2.0, v3.0, v4.0), f(v1.1, v2.1, v3.1, v4.1))
}

/// uniform Catmull-Rom through the points with the legacy end handling
/// (first span repeats the first point, last span extrapolates `2*v3 - v2`).
/// Returns the samples and max |P''| over all spans.
pub fn catmull_samples(pts: &[P], per_span: usize) -> (Vec<P>, f64) {
    let n = pts.len();
    let mut out = vec![];
    let mut maxdd: f64 = 0.0;
    for i in 0..n.saturating_sub(1) {
        let v1 = if i > 0 { pts[i - 1] } else { pts[i] };
        let v2 = pts[i];
        let v3 = pts[i + 1];
        let v4 = if i + 2 < n { pts[i + 2] } else { (v3.0 * 2.0 - v2.0, v3.1 * 2.0 - v2.1) };
        for k in 0..=per_span {
            out.push(catmull_point(v1, v2, v3, v4, k as f64 / per_span as f64));
        }
        for t in [0.0, 1.0] {
            let dd = |a: f64, b: f64, c: f64, d: f64| 0.5 * (2.0 * (2.0 * a - 5.0 * b + 4.0 * c - d) + 6.0 * (-a + 3.0 * b - 3.0 * c + d) * t);
            let m = (dd(v1.0, v2.0, v3.0, v4.0).powi(2) + dd(v1.1, v2.1, v3.1, v4.1).powi(2)).sqrt();
            maxdd = maxdd.max(m);
        }
    }
    (out, maxdd)
}

pub fn ulp_f32(x: f64) -> f64 {
    let b = (x.abs() as f32).to_bits();
    (f32::from_bits(b + 1) - f32::from_bits(b)) as f64
}
