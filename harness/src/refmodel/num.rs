//! Number rules of the legacy format (DESIGN Appendix A.2), written independently.

/// i32 after trimming, |n| <= 2^31-1
pub fn pi32(s: &str) -> Option<i32> {
    let n: i32 = s.trim().parse().ok()?;
    if n < -i32::MAX {
        None
    } else {
        Some(n)
    }
}

/// i32 with a custom limit
pub fn pi32_lim(s: &str, lim: i32) -> Option<i32> {
    let n: i32 = s.trim().parse().ok()?;
    if n < -lim || n > lim {
        None
    } else {
        Some(n)
    }
}

/// f64 after trimming; NaN and |x| > limit rejected
pub fn pf64(s: &str, limit: f64) -> Option<f64> {
    let n: f64 = s.trim().parse().ok()?;
    if n.is_nan() || n < -limit || n > limit {
        None
    } else {
        Some(n)
    }
}

/// f32 after trimming; NaN and |x| > limit (limit in f32) rejected
pub fn pf32(s: &str, limit: f32) -> Option<f32> {
    let n: f32 = s.trim().parse().ok()?;
    if n.is_nan() || n < -limit || n > limit {
        None
    } else {
        Some(n)
    }
}

pub const MAXV: f64 = 2147483647.0;
/// `i32::MAX as f32` - the limit of f32 fields is evaluated in f32 (= 2^31)
pub const MAXV_F32: f32 = 2147483647i32 as f32;
