//! Reference interpretation of key/value, event and colour records
//! (DESIGN Appendix A.2). Table-driven, written from the format rules; the
//! crate's plain data structs are used as record holders only.

use super::num::{pf32, pf64, pi32, MAXV, MAXV_F32};
use rosu_map::section::colors::{Color, Colors, CustomColor};
use rosu_map::section::difficulty::Difficulty;
use rosu_map::section::editor::Editor;
use rosu_map::section::events::{BreakPeriod, Events};
use rosu_map::section::general::{CountdownType, GameMode, General};
use rosu_map::section::hit_objects::hit_samples::SampleBank;
use rosu_map::section::metadata::Metadata;

pub fn strip_comment(line: &str) -> &str {
    line.find("//").map_or(line, |i| &line[..i]).trim_end()
}

/// key = trimmed text before the first colon, value = trimmed text after it
pub fn split_kv(line: &str) -> (&str, &str) {
    match line.split_once(':') {
        Some((k, v)) => (k.trim(), v.trim()),
        None => (line.trim(), ""),
    }
}

pub fn clean_filename(s: &str) -> String {
    s.trim_matches('"').replace("\\\\", "\\").replace('\\', "/")
}

#[derive(Copy, Clone, Debug, PartialEq, Eq, Hash)]
pub enum Sec {
    General,
    Editor,
    Metadata,
    Difficulty,
    Events,
    Colours,
}

impl Sec {
    pub fn header(self) -> &'static str {
        match self {
            Sec::General => "[General]",
            Sec::Editor => "[Editor]",
            Sec::Metadata => "[Metadata]",
            Sec::Difficulty => "[Difficulty]",
            Sec::Events => "[Events]",
            Sec::Colours => "[Colours]",
        }
    }
}

pub struct Expected {
    pub general: General,
    pub editor: Editor,
    pub metadata: Metadata,
    pub difficulty: Difficulty,
    has_ar: bool,
    pub events: Events,
    pub colors: Colors,
    /// per line: was it rejected (invalid value / malformed record)?
    pub rejected: Vec<bool>,
    pub recognised: u32,
}

impl Default for Expected {
    fn default() -> Self {
        Self::new()
    }
}

impl Expected {
    pub fn new() -> Self {
        // documented defaults, written out (not taken from the crate)
        Self {
            general: General {
                audio_file: String::new(),
                audio_lead_in: 0.0,
                preview_time: -1,
                default_sample_bank: SampleBank::None,
                default_sample_volume: 100,
                stack_leniency: 0.7,
                mode: GameMode::Osu,
                letterbox_in_breaks: false,
                special_style: false,
                widescreen_storyboard: false,
                epilepsy_warning: false,
                samples_match_playback_rate: false,
                countdown: CountdownType::Normal,
                countdown_offset: 0,
            },
            editor: Editor { bookmarks: vec![], distance_spacing: 1.0, beat_divisor: 4, grid_size: 0, timeline_zoom: 1.0 },
            metadata: Metadata {
                title: String::new(),
                title_unicode: String::new(),
                artist: String::new(),
                artist_unicode: String::new(),
                creator: String::new(),
                version: String::new(),
                source: String::new(),
                tags: String::new(),
                beatmap_id: -1,
                beatmap_set_id: 0,
            },
            difficulty: Difficulty {
                hp_drain_rate: 5.0,
                circle_size: 5.0,
                overall_difficulty: 5.0,
                approach_rate: 5.0,
                slider_multiplier: 1.4,
                slider_tick_rate: 1.0,
            },
            has_ar: false,
            events: Events { background_file: String::new(), breaks: vec![] },
            colors: Colors { custom_combo_colors: vec![], custom_colors: vec![] },
            rejected: vec![],
            recognised: 0,
        }
    }

    /// feed one (non-blank, non-comment) line of a section
    pub fn line(&mut self, sec: Sec, line: &str) {
        let ok = match sec {
            Sec::General => self.general(line),
            Sec::Editor => self.editor(line),
            Sec::Metadata => self.metadata(line),
            Sec::Difficulty => self.difficulty(line),
            Sec::Events => self.events(line),
            Sec::Colours => self.colours(line),
        };
        self.rejected.push(!ok);
    }

    fn flag(v: &str) -> Option<bool> {
        pi32(v).map(|n| n == 1)
    }

    fn general(&mut self, line: &str) -> bool {
        let (k, v) = split_kv(strip_comment(line));
        let g = &mut self.general;
        macro_rules! set {
            ($field:ident, $val:expr) => {{
                self.recognised += 1;
                match $val {
                    Some(x) => {
                        g.$field = x;
                        true
                    }
                    None => false,
                }
            }};
        }
        match k {
            "AudioFilename" => set!(audio_file, Some(v.replace('\\', "/"))),
            "AudioLeadIn" => set!(audio_lead_in, pi32(v).map(f64::from)),
            "PreviewTime" => set!(preview_time, pi32(v)),
            "SampleSet" => set!(
                default_sample_bank,
                match v {
                    "0" | "None" => Some(SampleBank::None),
                    "1" | "Normal" => Some(SampleBank::Normal),
                    "2" | "Soft" => Some(SampleBank::Soft),
                    "3" | "Drum" => Some(SampleBank::Drum),
                    _ => None,
                }
            ),
            "SampleVolume" => set!(default_sample_volume, pi32(v)),
            "StackLeniency" => set!(stack_leniency, pf32(v, MAXV_F32)),
            "Mode" => set!(
                mode,
                match v {
                    "0" => Some(GameMode::Osu),
                    "1" => Some(GameMode::Taiko),
                    "2" => Some(GameMode::Catch),
                    "3" => Some(GameMode::Mania),
                    _ => None,
                }
            ),
            "LetterboxInBreaks" => set!(letterbox_in_breaks, Self::flag(v)),
            "SpecialStyle" => set!(special_style, Self::flag(v)),
            "WidescreenStoryboard" => set!(widescreen_storyboard, Self::flag(v)),
            "EpilepsyWarning" => set!(epilepsy_warning, Self::flag(v)),
            "SamplesMatchPlaybackRate" => set!(samples_match_playback_rate, Self::flag(v)),
            "Countdown" => set!(
                countdown,
                match v {
                    "0" | "None" => Some(CountdownType::None),
                    "1" | "Normal" => Some(CountdownType::Normal),
                    "2" | "Half speed" => Some(CountdownType::HalfSpeed),
                    "3" | "Double speed" => Some(CountdownType::DoubleSpeed),
                    _ => None,
                }
            ),
            "CountdownOffset" => set!(countdown_offset, pi32(v)),
            _ => true,
        }
    }

    fn editor(&mut self, line: &str) -> bool {
        let (k, v) = split_kv(strip_comment(line));
        let e = &mut self.editor;
        match k {
            "Bookmarks" => {
                self.recognised += 1;
                // items are parsed as plain i32 without trimming; bad items are dropped
                e.bookmarks = v.split(',').filter_map(|s| s.parse::<i32>().ok()).collect();
                true
            }
            "DistanceSpacing" => {
                self.recognised += 1;
                pf64(v, MAXV).map(|x| e.distance_spacing = x).is_some()
            }
            "BeatDivisor" => {
                self.recognised += 1;
                pi32(v).map(|x| e.beat_divisor = x).is_some()
            }
            "GridSize" => {
                self.recognised += 1;
                pi32(v).map(|x| e.grid_size = x).is_some()
            }
            "TimelineZoom" => {
                self.recognised += 1;
                pf64(v, MAXV).map(|x| e.timeline_zoom = x).is_some()
            }
            _ => true,
        }
    }

    fn metadata(&mut self, line: &str) -> bool {
        // no comment stripping in this section
        let (k, v) = split_kv(line);
        let m = &mut self.metadata;
        let text = |dst: &mut String| {
            *dst = v.to_string();
            true
        };
        let r = match k {
            "Title" => text(&mut m.title),
            "TitleUnicode" => text(&mut m.title_unicode),
            "Artist" => text(&mut m.artist),
            "ArtistUnicode" => text(&mut m.artist_unicode),
            "Creator" => text(&mut m.creator),
            "Version" => text(&mut m.version),
            "Source" => text(&mut m.source),
            "Tags" => text(&mut m.tags),
            "BeatmapID" => pi32(v).map(|x| m.beatmap_id = x).is_some(),
            "BeatmapSetID" => pi32(v).map(|x| m.beatmap_set_id = x).is_some(),
            _ => return true,
        };
        self.recognised += 1;
        r
    }

    fn difficulty(&mut self, line: &str) -> bool {
        let (k, v) = split_kv(strip_comment(line));
        let d = &mut self.difficulty;
        let r = match k {
            "HPDrainRate" => pf32(v, MAXV_F32).map(|x| d.hp_drain_rate = x).is_some(),
            "CircleSize" => pf32(v, MAXV_F32).map(|x| d.circle_size = x).is_some(),
            "OverallDifficulty" => match pf32(v, MAXV_F32) {
                Some(x) => {
                    d.overall_difficulty = x;
                    if !self.has_ar {
                        d.approach_rate = x;
                    }
                    true
                }
                None => false,
            },
            "ApproachRate" => match pf32(v, MAXV_F32) {
                Some(x) => {
                    d.approach_rate = x;
                    self.has_ar = true;
                    true
                }
                None => false,
            },
            "SliderMultiplier" => pf64(v, MAXV).map(|x| d.slider_multiplier = x.clamp(0.4, 3.6)).is_some(),
            "SliderTickRate" => pf64(v, MAXV).map(|x| d.slider_tick_rate = x.clamp(0.5, 8.0)).is_some(),
            _ => return true,
        };
        self.recognised += 1;
        r
    }

    fn events(&mut self, line: &str) -> bool {
        let l = strip_comment(line);
        let f: Vec<&str> = l.split(',').collect();
        if f.len() < 3 {
            return false;
        }
        let ev = &mut self.events;
        self.recognised += 1;
        match f[0] {
            "0" | "Background" => {
                ev.background_file = clean_filename(f[2]);
                true
            }
            "1" | "Video" => {
                let name = clean_filename(f[2]);
                let b = name.as_bytes();
                if b.len() >= 3 {
                    let ext: Vec<u8> = b[b.len() - 3..].iter().map(|c| c.to_ascii_lowercase()).collect();
                    let video = [&b"mp4"[..], b"mov", b"avi", b"flv", b"mpg", b"wmv", b"m4v"].contains(&&ext[..]);
                    if !video {
                        ev.background_file = name;
                    }
                }
                true
            }
            "2" | "Break" => match (pf64(f[1], MAXV), pf64(f[2], MAXV)) {
                (Some(s), Some(e)) => {
                    ev.breaks.push(BreakPeriod { start_time: s, end_time: if e > s { e } else { s } });
                    true
                }
                _ => false,
            },
            "4" | "Sprite" => {
                if ev.background_file.is_empty() {
                    match f.get(3) {
                        Some(x) => {
                            ev.background_file = clean_filename(x);
                            true
                        }
                        None => false,
                    }
                } else {
                    true
                }
            }
            "3" | "Colour" | "5" | "Sample" | "6" | "Animation" => true,
            _ => {
                self.recognised -= 1;
                false
            }
        }
    }

    fn colours(&mut self, line: &str) -> bool {
        let (k, v) = split_kv(strip_comment(line));
        let items: Vec<&str> = v.split(',').map(str::trim).collect();
        self.recognised += 1;
        if items.len() < 3 || items.len() > 4 {
            return false;
        }
        let (Ok(r), Ok(g), Ok(b)) = (items[0].parse::<u8>(), items[1].parse::<u8>(), items[2].parse::<u8>()) else {
            return false;
        };
        let c = Color::new(r, g, b, 255);
        let co = &mut self.colors;
        if k.starts_with("Combo") {
            co.custom_combo_colors.push(c);
        } else if let Some(old) = co.custom_colors.iter_mut().find(|x| x.name == k) {
            old.color = c;
        } else {
            co.custom_colors.push(CustomColor { name: k.to_string(), color: c });
        }
        true
    }
}
