use rosu_verif::engine::*;
use rosu_verif::props;

fn usage() -> ! {
    eprintln!("usage: check <ID> <quick|thorough> | check <ID> --replay <file>");
    std::process::exit(2);
}

fn main() {
    let args: Vec<String> = std::env::args().skip(1).collect();
    if args.is_empty() {
        usage();
    }
    if args[0] == "gen-corpus" {
        // write generated documents as fuzz seeds: check gen-corpus <dir> <n>
        let dir = std::path::PathBuf::from(&args[1]);
        let n: u32 = args.get(2).and_then(|s| s.parse().ok()).unwrap_or(200);
        std::fs::create_dir_all(&dir).unwrap();
        for i in 0..n {
            let tape: Vec<u8> = (0..1500u32).map(|j| ((i.wrapping_mul(2654435761) ^ j.wrapping_mul(40503) ^ (j * j)) >> 3) as u8).collect();
            let mut t = Tape::new(&tape);
            let input = rosu_verif::props::c01::gen_input(&mut t);
            std::fs::write(dir.join(format!("gen-{i:04}.osu")), &input.bytes).unwrap();
        }
        std::fs::write(dir.join("empty.osu"), b"").unwrap();
        return;
    }
    if args[0] == "gen-tapes" {
        // pseudo-random generator tapes as seeds of the `tape` fuzz target: check gen-tapes <dir> <n>
        let dir = std::path::PathBuf::from(&args[1]);
        let n: u32 = args.get(2).and_then(|s| s.parse().ok()).unwrap_or(200);
        std::fs::create_dir_all(&dir).unwrap();
        for i in 0..n {
            let len = 40 + (i as usize * 37) % 1200;
            let mut x = 0x9E3779B97F4A7C15u64 ^ (i as u64).wrapping_mul(0xD1B54A32D192ED03);
            let tape: Vec<u8> = (0..len)
                .map(|_| {
                    x ^= x << 13;
                    x ^= x >> 7;
                    x ^= x << 17;
                    // a third of the bytes small (the tape maps 0 to the simplest choice)
                    if x & 3 == 0 { (x >> 8) as u8 & 0x1f } else { (x >> 8) as u8 }
                })
                .collect();
            std::fs::write(dir.join(format!("tape-{i:04}")), &tape).unwrap();
        }
        std::fs::write(dir.join("empty"), b"").unwrap();
        std::fs::write(dir.join("zeros"), vec![0u8; 64]).unwrap();
        return;
    }
    if args[0] == "gdomain" {
        // share of a grammar-fuzz corpus inside the line-level domain: check gdomain <ID> <dir>  (prints "in out")
        let id = args[1].to_uppercase();
        let (mut inn, mut out) = (0u64, 0u64);
        for e in std::fs::read_dir(&args[2]).unwrap() {
            let data = std::fs::read(e.unwrap().path()).unwrap();
            if data.len() < 3 {
                continue;
            }
            let text = String::from_utf8_lossy(&data[3..]).into_owned();
            let r = match id.as_str() {
                "C11" => rosu_verif::props::c11::fuzz_text(&text).ok(),
                "C12" => rosu_verif::props::c12::fuzz_domain([data[0], data[1], data[2]], &text),
                _ => rosu_verif::props::c14::fuzz_text(data[0], &text).ok(),
            };
            match r {
                Some(true) => inn += 1,
                Some(false) => out += 1,
                None => {}
            }
        }
        println!("{inn} {out}");
        return;
    }
    if args[0] == "gen-gtext" {
        // generated seeds of the `grammar` fuzz target: check gen-gtext <dir> <ID> <n>
        let dir = std::path::PathBuf::from(&args[1]);
        let id = args[2].to_uppercase();
        let n: u32 = args.get(3).and_then(|s| s.parse().ok()).unwrap_or(200);
        std::fs::create_dir_all(&dir).unwrap();
        for i in 0..n {
            let mut x = 0x9E3779B97F4A7C15u64 ^ (i as u64).wrapping_mul(0xD1B54A32D192ED03);
            let tape: Vec<u8> = (0..600)
                .map(|_| {
                    x ^= x << 13;
                    x ^= x >> 7;
                    x ^= x << 17;
                    if x & 3 == 0 { (x >> 8) as u8 & 0x1f } else { (x >> 8) as u8 }
                })
                .collect();
            let mut t = Tape::new(&tape);
            let body = match id.as_str() {
                "C11" => {
                    let text = rosu_verif::props::c11::gen_case(&mut t).text();
                    text.split_once('\n').map(|x| x.1.to_string()).unwrap_or_default()
                }
                "C12" => rosu_verif::props::c12::gen_case(&mut t, false).lines.join("\n"),
                _ => rosu_verif::props::c14::gen_lines(&mut t).join("\n"),
            };
            let mut out = vec![(i % 4) as u8, (i / 4 % 6) as u8, (i / 24 % 5) as u8];
            out.extend_from_slice(body.as_bytes());
            std::fs::write(dir.join(format!("g-{i:04}")), &out).unwrap();
        }
        std::fs::write(dir.join("empty"), b"").unwrap();
        return;
    }
    let id = args[0].to_uppercase();
    let Some((id, run, replay)) = props::registry(&id) else {
        eprintln!("unknown property {id}");
        std::process::exit(2);
    };
    let seed: u64 = std::env::var("VERIF_SEED")
        .ok()
        .and_then(|s| s.trim().parse::<i64>().ok())
        .map(|v| v as u64)
        .unwrap_or(0);
    quiet_panics();

    if args.get(1).map(String::as_str) == Some("--replay") {
        let Some(path) = args.get(2) else { usage() };
        let bytes = std::fs::read(path).unwrap_or_else(|e| {
            eprintln!("cannot read {path}: {e}");
            std::process::exit(2);
        });
        let ext = ext_of(std::path::Path::new(path));
        let mut ctx = Ctx::new(id, Tier::Quick, seed);
        let res = std::panic::catch_unwind(std::panic::AssertUnwindSafe(|| {
            if ext == "ftape" {
                props::replay_ftape(id, &mut ctx, &bytes)
            } else if ext == "gtext" {
                props::replay_gtext(id, &mut ctx, &bytes)
            } else {
                replay(&mut ctx, &ext, &bytes)
            }
        }));
        match res {
            Ok(Ok(None)) => {
                println!("replay {path}: property {id} holds on this case");
                std::process::exit(0);
            }
            Ok(Ok(Some(key))) => {
                println!("KNOWN-FINDING: property={id} key={key} (replay {path})");
                std::process::exit(0);
            }
            Ok(Err(fail)) => {
                println!("VIOLATION property={id} replay={path}");
                println!("  detail: {}", fail.msg.lines().take(40).map(|l| l.chars().take(2000).collect::<String>()).collect::<Vec<_>>().join("\n"));
                std::process::exit(1);
            }
            Err(e) => {
                println!("VIOLATION property={id} replay={path}");
                println!("  detail: panic: {}", panic_message(&e));
                std::process::exit(1);
            }
        }
    }

    let tier = match args
        .get(1)
        .cloned()
        .or_else(|| std::env::var("VERIF_TIER").ok())
        .as_deref()
    {
        Some("thorough") => Tier::Thorough,
        Some("quick") | None => Tier::Quick,
        Some(other) => {
            eprintln!("unknown tier {other}");
            std::process::exit(2);
        }
    };
    let res = std::panic::catch_unwind(|| {
        let mut ctx = Ctx::new(id, tier, seed);
        run(&mut ctx);
        ctx.finish()
    });
    match res {
        Ok(code) => std::process::exit(code),
        Err(e) => {
            eprintln!("INCONCLUSIVE: harness panic: {}", panic_message(&e));
            std::process::exit(2);
        }
    }
}
