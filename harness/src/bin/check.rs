use rosu_verif::engine::*;
use rosu_verif::props;

fn usage() -> ! {
    eprintln!("usage: check <ID> <quick|thorough> | check <ID> --replay <file>");
    std::process::exit(2);
}

fn main() {
    let args: Vec<String> = std::env::args().skip(1).collect();
    if args.is_empty() {
        usage();
    }
    if args[0] == "gen-corpus" {
        // write generated documents as fuzz seeds: check gen-corpus <dir> <n>
        let dir = std::path::PathBuf::from(&args[1]);
        let n: u32 = args.get(2).and_then(|s| s.parse().ok()).unwrap_or(200);
        std::fs::create_dir_all(&dir).unwrap();
        for i in 0..n {
            let tape: Vec<u8> = (0..1500u32).map(|j| ((i.wrapping_mul(2654435761) ^ j.wrapping_mul(40503) ^ (j * j)) >> 3) as u8).collect();
            let mut t = Tape::new(&tape);
            let input = rosu_verif::props::c01::gen_input(&mut t);
            std::fs::write(dir.join(format!("gen-{i:04}.osu")), &input.bytes).unwrap();
        }
        std::fs::write(dir.join("empty.osu"), b"").unwrap();
        return;
    }
    let id = args[0].to_uppercase();
    let Some((id, run, replay)) = props::registry(&id) else {
        eprintln!("unknown property {id}");
        std::process::exit(2);
    };
    let seed: u64 = std::env::var("VERIF_SEED")
        .ok()
        .and_then(|s| s.trim().parse::<i64>().ok())
        .map(|v| v as u64)
        .unwrap_or(0);
    quiet_panics();

    if args.get(1).map(String::as_str) == Some("--replay") {
        let Some(path) = args.get(2) else { usage() };
        let bytes = std::fs::read(path).unwrap_or_else(|e| {
            eprintln!("cannot read {path}: {e}");
            std::process::exit(2);
        });
        let ext = ext_of(std::path::Path::new(path));
        let mut ctx = Ctx::new(id, Tier::Quick, seed);
        let res = std::panic::catch_unwind(std::panic::AssertUnwindSafe(|| replay(&mut ctx, &ext, &bytes)));
        match res {
            Ok(Ok(None)) => {
                println!("replay {path}: property {id} holds on this case");
                std::process::exit(0);
            }
            Ok(Ok(Some(key))) => {
                println!("KNOWN-FINDING: property={id} key={key} (replay {path})");
                std::process::exit(0);
            }
            Ok(Err(fail)) => {
                println!("VIOLATION property={id} replay={path}");
                println!("  detail: {}", fail.msg);
                std::process::exit(1);
            }
            Err(e) => {
                println!("VIOLATION property={id} replay={path}");
                println!("  detail: panic: {}", panic_message(&e));
                std::process::exit(1);
            }
        }
    }

    let tier = match args
        .get(1)
        .cloned()
        .or_else(|| std::env::var("VERIF_TIER").ok())
        .as_deref()
    {
        Some("thorough") => Tier::Thorough,
        Some("quick") | None => Tier::Quick,
        Some(other) => {
            eprintln!("unknown tier {other}");
            std::process::exit(2);
        }
    };
    let res = std::panic::catch_unwind(|| {
        let mut ctx = Ctx::new(id, tier, seed);
        run(&mut ctx);
        ctx.finish()
    });
    match res {
        Ok(code) => std::process::exit(code),
        Err(e) => {
            eprintln!("INCONCLUSIVE: harness panic: {}", panic_message(&e));
            std::process::exit(2);
        }
    }
}
