//! Engine: seeded proptest runner over byte tapes, exhaustive enumeration,
//! counters, evidence, replay I/O, known findings.

use proptest::strategy::Strategy;
use proptest::test_runner::{Config, RngSeed, TestCaseError, TestError, TestRunner};
use serde_json::{json, Value};
use std::cell::RefCell;
use std::collections::{BTreeMap, HashSet};
use std::hash::{Hash, Hasher};
use std::path::{Path, PathBuf};
use std::sync::atomic::{AtomicBool, AtomicU64, Ordering};
use std::sync::Mutex;
use std::time::Instant;

/// root of the verification tree (evidence, replays, regress, known_findings.json): the directory the
/// `check` script lives in (exported as VERIF_ROOT), /verif by default
pub fn verif_dir() -> PathBuf {
    match std::env::var("VERIF_ROOT") {
        Ok(p) if !p.is_empty() => PathBuf::from(p),
        _ => PathBuf::from("/verif"),
    }
}

#[derive(Copy, Clone, Debug, PartialEq, Eq)]
pub enum Tier {
    Quick,
    Thorough,
}

impl Tier {
    pub fn name(self) -> &'static str {
        match self {
            Tier::Quick => "quick",
            Tier::Thorough => "thorough",
        }
    }
    /// pick by tier
    pub fn pick<T>(self, quick: T, thorough: T) -> T {
        match self {
            Tier::Quick => quick,
            Tier::Thorough => thorough,
        }
    }
}

// ---------------------------------------------------------------------------
// Tape: every random decision of a generator is read from a byte string that
// proptest (or libFuzzer) owns. 0 is always the simplest choice and indices
// are mapped monotonically, so shrinking the tape shrinks the case.
// ---------------------------------------------------------------------------

pub struct Tape<'a> {
    data: &'a [u8],
    pos: usize,
}

impl<'a> Tape<'a> {
    pub fn new(data: &'a [u8]) -> Self {
        Self { data, pos: 0 }
    }

    pub fn byte(&mut self) -> u8 {
        let b = self.data.get(self.pos).copied().unwrap_or(0);
        self.pos += 1;
        b
    }

    pub fn exhausted(&self) -> bool {
        self.pos >= self.data.len()
    }

    /// the whole tape (for artefacts that embed their own replay data)
    pub fn all_bytes(&self) -> &'a [u8] {
        self.data
    }

    pub fn consumed(&self) -> usize {
        self.pos.min(self.data.len())
    }

    /// Uniform-ish index in `0..n`, monotone in the tape bytes.
    pub fn below(&mut self, n: usize) -> usize {
        if n <= 1 {
            return 0;
        }
        if n <= 256 {
            (self.byte() as usize * n) >> 8
        } else if n <= 65536 {
            let v = ((self.byte() as usize) << 8) | self.byte() as usize;
            (v * n) >> 16
        } else {
            let v = ((self.byte() as u64) << 24)
                | ((self.byte() as u64) << 16)
                | ((self.byte() as u64) << 8)
                | self.byte() as u64;
            ((v * n as u64) >> 32) as usize
        }
    }

    /// True with probability ~pct/100; a zero byte is always `false`.
    pub fn chance(&mut self, pct: u32) -> bool {
        let b = self.byte() as u32;
        b >= 256 - (pct * 256 / 100).min(256)
    }

    pub fn pick<'t, T>(&mut self, items: &'t [T]) -> &'t T {
        &items[self.below(items.len())]
    }

    /// weighted pick: items with weight; index 0 is the simplest.
    pub fn weighted(&mut self, weights: &[u32]) -> usize {
        let total: u32 = weights.iter().sum();
        let mut v = (self.below(total as usize)) as u32;
        for (i, w) in weights.iter().enumerate() {
            if v < *w {
                return i;
            }
            v -= w;
        }
        weights.len() - 1
    }

    pub fn int(&mut self, lo: i64, hi: i64) -> i64 {
        debug_assert!(lo <= hi);
        let span = (hi - lo) as u64 + 1;
        if span <= 65536 {
            lo + self.below(span as usize) as i64
        } else {
            let mut v: u64 = 0;
            for _ in 0..6 {
                v = (v << 8) | self.byte() as u64;
            }
            lo + (((v as u128) * (span as u128)) >> 48) as i64
        }
    }

    /// value in [0,1) with 24 bits
    pub fn unit(&mut self) -> f64 {
        let v = ((self.byte() as u32) << 16) | ((self.byte() as u32) << 8) | self.byte() as u32;
        v as f64 / (1u32 << 24) as f64
    }

    pub fn rest(&mut self) -> &'a [u8] {
        let r = if self.pos < self.data.len() {
            &self.data[self.pos..]
        } else {
            &[]
        };
        self.pos = self.data.len();
        r
    }
}

pub fn hash64<T: Hash + ?Sized>(v: &T) -> u64 {
    let mut h = std::collections::hash_map::DefaultHasher::new();
    v.hash(&mut h);
    h.finish()
}

pub fn hash_f64s(vs: &[f64]) -> u64 {
    let mut h = std::collections::hash_map::DefaultHasher::new();
    for v in vs {
        v.to_bits().hash(&mut h);
    }
    h.finish()
}

// ---------------------------------------------------------------------------
// Known findings
// ---------------------------------------------------------------------------

#[derive(Clone, Debug)]
pub struct Finding {
    pub property: String,
    pub key: String,
    pub status: String, // "open" | "fixed"
    pub what: String,
    pub repro: Option<String>,
    pub commit: Option<String>,
}

#[derive(Clone, Debug, Default)]
pub struct KnownFindings {
    pub entries: Vec<Finding>,
}

impl KnownFindings {
    pub fn load() -> Self {
        let p = verif_dir().join("known_findings.json");
        let Ok(txt) = std::fs::read_to_string(&p) else {
            return Self::default();
        };
        let v: Value = serde_json::from_str(&txt).expect("known_findings.json must be valid JSON");
        let mut entries = vec![];
        for e in v["findings"].as_array().cloned().unwrap_or_default() {
            entries.push(Finding {
                property: e["property"].as_str().unwrap_or("").to_string(),
                key: e["key"].as_str().unwrap_or("").to_string(),
                status: e["status"].as_str().unwrap_or("").to_string(),
                what: e["what"].as_str().unwrap_or("").to_string(),
                repro: e["repro"].as_str().map(str::to_string),
                commit: e["commit"].as_str().map(str::to_string),
            });
        }
        Self { entries }
    }

    /// Is there an *open* entry with this key for this property?
    pub fn is_open(&self, property: &str, key: &str) -> bool {
        self.entries
            .iter()
            .any(|e| e.property == property && e.key == key && e.status == "open")
    }

    pub fn for_property<'a>(&'a self, property: &'a str) -> impl Iterator<Item = &'a Finding> {
        self.entries.iter().filter(move |e| e.property == property)
    }
}

// ---------------------------------------------------------------------------
// Verdicts and failures
// ---------------------------------------------------------------------------

/// A failed case together with its plain artefact.
#[derive(Clone, Debug)]
pub struct Fail {
    pub msg: String,
    /// plain rendering of the case (.osu bytes, JSON text, ...)
    pub artifact: Vec<u8>,
    pub ext: &'static str,
}

impl Fail {
    pub fn new(msg: impl Into<String>, ext: &'static str, artifact: impl Into<Vec<u8>>) -> Self {
        Self {
            msg: msg.into(),
            artifact: artifact.into(),
            ext,
        }
    }
    pub fn json(msg: impl Into<String>, v: &Value) -> Self {
        Self::new(msg, "json", serde_json::to_vec_pretty(v).unwrap())
    }
}

pub type CaseResult = Result<(), Fail>;

// ---------------------------------------------------------------------------
// Stats
// ---------------------------------------------------------------------------

const MAX_SAMPLES: usize = 6;
const MAX_SET: usize = 4_000_000;

#[derive(Default, Debug)]
pub struct Stats {
    pub evaluations: u64,
    nontrivial_set: HashSet<u64>,
    /// non-trivial cases that are distinct by construction (enumerations)
    pub nontrivial_enum: u64,
    pub labels: BTreeMap<String, u64>,
    pub known_hits: BTreeMap<String, u64>,
    pub excluded: BTreeMap<String, u64>,
    pub samples: Vec<Value>,
    pub extra: BTreeMap<String, Value>,
    pub exhaustive_spaces: Vec<Value>,
    /// when set, nothing is recorded (used while proptest shrinks)
    pub frozen: bool,
}

impl Stats {
    pub fn eval(&mut self) {
        if !self.frozen {
            self.evaluations += 1;
        }
    }
    pub fn evals(&mut self, n: u64) {
        if !self.frozen {
            self.evaluations += n;
        }
    }
    pub fn label(&mut self, l: &str) {
        if !self.frozen {
            *self.labels.entry(l.to_string()).or_insert(0) += 1;
        }
    }
    pub fn label_n(&mut self, l: &str, n: u64) {
        if !self.frozen && n > 0 {
            *self.labels.entry(l.to_string()).or_insert(0) += n;
        }
    }
    pub fn known(&mut self, key: &str) {
        if !self.frozen {
            *self.known_hits.entry(key.to_string()).or_insert(0) += 1;
        }
    }
    pub fn exclude(&mut self, why: &str) {
        if !self.frozen {
            *self.excluded.entry(why.to_string()).or_insert(0) += 1;
        }
    }
    /// record a non-trivial case identified by a digest (random search)
    pub fn nontrivial(&mut self, digest: u64) -> bool {
        if self.frozen {
            return false;
        }
        if self.nontrivial_set.len() < MAX_SET {
            self.nontrivial_set.insert(digest)
        } else {
            false
        }
    }
    /// record a non-trivial case that is distinct by construction (enumeration)
    pub fn nontrivial_distinct(&mut self) {
        if !self.frozen {
            self.nontrivial_enum += 1;
        }
    }
    pub fn want_sample(&self) -> bool {
        !self.frozen && self.samples.len() < MAX_SAMPLES
    }
    pub fn sample(&mut self, f: impl FnOnce() -> Value) {
        if self.want_sample() {
            self.samples.push(f());
        }
    }
    pub fn distinct_nontrivial(&self) -> u64 {
        self.nontrivial_set.len() as u64 + self.nontrivial_enum
    }
    pub fn merge(&mut self, other: Stats) {
        self.evaluations += other.evaluations;
        self.nontrivial_enum += other.nontrivial_enum;
        for d in other.nontrivial_set {
            if self.nontrivial_set.len() < MAX_SET {
                self.nontrivial_set.insert(d);
            }
        }
        for (k, v) in other.labels {
            *self.labels.entry(k).or_insert(0) += v;
        }
        for (k, v) in other.known_hits {
            *self.known_hits.entry(k).or_insert(0) += v;
        }
        for (k, v) in other.excluded {
            *self.excluded.entry(k).or_insert(0) += v;
        }
        for s in other.samples {
            if self.samples.len() < MAX_SAMPLES {
                self.samples.push(s);
            }
        }
        for (k, v) in other.extra {
            match (self.extra.get_mut(&k), &v) {
                (Some(Value::Number(a)), Value::Number(b)) if a.is_u64() && b.is_u64() => {
                    *a = (a.as_u64().unwrap() + b.as_u64().unwrap()).into();
                }
                _ => {
                    self.extra.insert(k, v);
                }
            }
        }
        self.exhaustive_spaces.extend(other.exhaustive_spaces);
    }
    pub fn add_extra_u64(&mut self, key: &str, n: u64) {
        if self.frozen {
            return;
        }
        let cur = self.extra.get(key).and_then(Value::as_u64).unwrap_or(0);
        self.extra.insert(key.to_string(), (cur + n).into());
    }
}

// ---------------------------------------------------------------------------
// Context of one check invocation
// ---------------------------------------------------------------------------

pub struct Ctx {
    pub id: &'static str,
    pub tier: Tier,
    pub seed: u64,
    pub threads: usize,
    pub kf: KnownFindings,
    pub level: &'static str,
    pub rule: String,
    pub assumptions: Vec<String>,
    pub stats: Stats,
    pub start: Instant,
    pub violations: Vec<(String, PathBuf)>,
    pub known_lines: Vec<String>,
}

impl Ctx {
    pub fn new(id: &'static str, tier: Tier, seed: u64) -> Self {
        let threads = std::env::var("VERIF_THREADS")
            .ok()
            .and_then(|s| s.parse().ok())
            .unwrap_or_else(|| {
                std::thread::available_parallelism()
                    .map(|n| n.get())
                    .unwrap_or(4)
                    .min(16)
            });
        Self {
            id,
            tier,
            seed,
            threads,
            kf: KnownFindings::load(),
            level: "exploration",
            rule: String::new(),
            assumptions: vec![],
            stats: Stats::default(),
            start: Instant::now(),
            violations: vec![],
            known_lines: vec![],
        }
    }

    pub fn open(&self, key: &str) -> bool {
        self.kf.is_open(self.id, key)
    }

    /// Register a violation: writes the artefact and prints the VIOLATION line.
    pub fn violation(&mut self, fail: &Fail, tape: Option<&[u8]>) {
        let dir = verif_dir().join("replays").join(self.id);
        let _ = std::fs::create_dir_all(&dir);
        let h = hash64(&fail.artifact);
        let path = dir.join(format!("{:016x}.{}", h, fail.ext));
        let _ = std::fs::write(&path, &fail.artifact);
        if let Some(t) = tape {
            let _ = std::fs::write(dir.join(format!("{:016x}.tape", h)), t);
        }
        let _ = std::fs::write(dir.join(format!("{:016x}.msg.txt", h)), &fail.msg);
        println!("VIOLATION property={} replay={}", self.id, path.display());
        // (the full message is in the .msg.txt file next to the artefact)
        let first = fail.msg.lines().take(12).map(|l| l.chars().take(700).collect::<String>()).collect::<Vec<_>>().join("\n    ");
        println!("  detail: {first}");
        self.violations.push((fail.msg.clone(), path));
    }

    pub fn known_finding_line(&mut self, what: &str) {
        let line = format!("KNOWN-FINDING: property={} {}", self.id, what);
        if !self.known_lines.contains(&line) {
            println!("{line}");
            self.known_lines.push(line);
        }
    }

    /// Run a tape-driven property with proptest on all threads.
    /// `f` is called with the tape and a stats object.
    pub fn pbt<F>(&mut self, name: &str, cases: u64, max_tape: usize, f: F)
    where
        F: Fn(&mut Tape, &mut Stats) -> CaseResult + Sync,
    {
        if !self.violations.is_empty() {
            return;
        }
        let threads = self.threads.max(1).min(cases.max(1) as usize);
        let per = (cases + threads as u64 - 1) / threads as u64;
        let results: Mutex<Vec<(Stats, Option<(Vec<u8>, Fail)>)>> = Mutex::new(vec![]);
        let stop = AtomicBool::new(false);
        let seed = self.seed;
        std::thread::scope(|s| {
            for t in 0..threads {
                let f = &f;
                let results = &results;
                let stop = &stop;
                let name = name.to_string();
                s.spawn(move || {
                    let stats = RefCell::new(Stats::default());
                    let last_fail: RefCell<Option<Fail>> = RefCell::new(None);
                    let config = Config {
                        cases: per as u32,
                        rng_seed: RngSeed::Fixed(hash64(&(seed, &name, t as u64))),
                        failure_persistence: None,
                        max_shrink_iters: 20_000,
                        max_shrink_time: 120_000,
                        max_global_rejects: 0,
                        verbose: 0,
                        ..Config::default()
                    };
                    let mut runner = TestRunner::new(config);
                    // mixture of tape lengths: short tapes give small cases
                    let strat = (0usize..4).prop_flat_map(move |k| {
                        let hi = match k {
                            0 => (max_tape / 16).max(8),
                            1 => (max_tape / 4).max(8),
                            _ => max_tape.max(8),
                        };
                        proptest::collection::vec(proptest::num::u8::ANY, 0..hi)
                    });
                    let res = runner.run(&strat, |tape| {
                        if stop.load(Ordering::Relaxed) && !stats.borrow().frozen {
                            return Ok(());
                        }
                        let mut tp = Tape::new(&tape);
                        let mut st = stats.borrow_mut();
                        match f(&mut tp, &mut st) {
                            Ok(()) => Ok(()),
                            Err(fail) => {
                                st.frozen = true;
                                let msg = fail.msg.clone();
                                *last_fail.borrow_mut() = Some(fail);
                                Err(TestCaseError::fail(msg))
                            }
                        }
                    });
                    let failure = match res {
                        Ok(()) => None,
                        Err(TestError::Fail(reason, tape)) => {
                            stop.store(true, Ordering::Relaxed);
                            // re-run the minimal tape to obtain its artefact
                            let mut st = Stats::default();
                            st.frozen = true;
                            let mut tp = Tape::new(&tape);
                            let fail = match std::panic::catch_unwind(
                                std::panic::AssertUnwindSafe(|| f(&mut tp, &mut st)),
                            ) {
                                Ok(Err(fail)) => fail,
                                Ok(Ok(())) => last_fail.borrow_mut().take().unwrap_or_else(|| {
                                    Fail::new(
                                        format!("flaky failure: {reason}"),
                                        "tape",
                                        tape.clone(),
                                    )
                                }),
                                Err(_) => Fail::new(
                                    format!("panic while evaluating the case: {reason}"),
                                    "tape",
                                    tape.clone(),
                                ),
                            };
                            Some((tape, fail))
                        }
                        Err(TestError::Abort(reason)) => Some((
                            vec![],
                            Fail::new(format!("proptest aborted: {reason}"), "txt", Vec::new()),
                        )),
                    };
                    let mut st = stats.into_inner();
                    st.frozen = false;
                    results.lock().unwrap().push((st, failure));
                });
            }
        });
        let mut first_fail: Option<(Vec<u8>, Fail)> = None;
        for (st, fl) in results.into_inner().unwrap() {
            self.stats.merge(st);
            if let Some(fl) = fl {
                let better = match &first_fail {
                    None => true,
                    Some((t, _)) => fl.0.len() < t.len(),
                };
                if better {
                    first_fail = Some(fl);
                }
            }
        }
        if let Some((tape, fail)) = first_fail {
            if fail.msg.starts_with("proptest aborted") {
                eprintln!("INCONCLUSIVE: {}", fail.msg);
                std::process::exit(2);
            }
            self.violation(&fail, Some(&tape));
        }
    }

    /// Exhaustive enumeration of indices `0..total` over all threads.
    pub fn enumerate<F>(&mut self, name: &str, total: u64, f: F)
    where
        F: Fn(u64, &mut Stats) -> CaseResult + Sync,
    {
        if !self.violations.is_empty() {
            return;
        }
        let threads = self.threads.max(1);
        let chunk: u64 = (total / (threads as u64 * 64)).clamp(1, 1 << 16);
        let next = AtomicU64::new(0);
        let stop = AtomicBool::new(false);
        let results: Mutex<Vec<(Stats, Option<(u64, Fail)>)>> = Mutex::new(vec![]);
        std::thread::scope(|s| {
            for _ in 0..threads {
                let f = &f;
                let next = &next;
                let stop = &stop;
                let results = &results;
                s.spawn(move || {
                    let mut st = Stats::default();
                    let mut failure = None;
                    'outer: loop {
                        if stop.load(Ordering::Relaxed) {
                            break;
                        }
                        let lo = next.fetch_add(chunk, Ordering::Relaxed);
                        if lo >= total {
                            break;
                        }
                        let hi = (lo + chunk).min(total);
                        for i in lo..hi {
                            if let Err(fail) = f(i, &mut st) {
                                failure = Some((i, fail));
                                stop.store(true, Ordering::Relaxed);
                                break 'outer;
                            }
                        }
                    }
                    results.lock().unwrap().push((st, failure));
                });
            }
        });
        let mut first: Option<(u64, Fail)> = None;
        let mut completed = true;
        for (st, fl) in results.into_inner().unwrap() {
            self.stats.merge(st);
            if let Some(fl) = fl {
                completed = false;
                if first.as_ref().map_or(true, |(i, _)| fl.0 < *i) {
                    first = Some(fl);
                }
            }
        }
        self.stats.exhaustive_spaces.push(json!({
            "space": name, "size": total, "completed": completed
        }));
        if let Some((_, fail)) = first {
            self.violation(&fail, None);
        }
    }

    /// Write the evidence file and return the exit code.
    pub fn finish(self) -> i32 {
        let wall = self.start.elapsed().as_secs_f64();
        let mut coverage = serde_json::Map::new();
        coverage.insert("evaluations".into(), self.stats.evaluations.into());
        coverage.insert(
            "distinct_nontrivial".into(),
            self.stats.distinct_nontrivial().into(),
        );
        coverage.insert("rule".into(), self.rule.clone().into());
        if self.stats.nontrivial_set.len() >= MAX_SET {
            coverage.insert(
                "distinct_nontrivial_note".into(),
                format!("the hash set of non-trivial case digests is capped at {MAX_SET} entries: distinct_nontrivial is a lower bound (counted conservatively)").into(),
            );
        }
        coverage.insert("samples".into(), Value::Array(self.stats.samples.clone()));
        coverage.insert("labels".into(), json!(self.stats.labels));
        coverage.insert("known_hits".into(), json!(self.stats.known_hits));
        coverage.insert("excluded".into(), json!(self.stats.excluded));
        if !self.stats.exhaustive_spaces.is_empty() {
            let all_done = self
                .stats
                .exhaustive_spaces
                .iter()
                .all(|s| s["completed"] == json!(true));
            coverage.insert(
                "exhaustive_subspaces".into(),
                Value::Array(self.stats.exhaustive_spaces.clone()),
            );
            // `exhaustive` refers to the named finite sub-spaces only
            coverage.insert("exhaustive".into(), Value::Bool(false));
            coverage.insert(
                "exhaustive_note".into(),
                format!(
                    "the sub-spaces listed under exhaustive_subspaces were enumerated completely: {all_done}; the property's full domain is infinite and only sampled"
                )
                .into(),
            );
        }
        for (k, v) in &self.stats.extra {
            coverage.insert(k.clone(), v.clone());
        }
        if let Ok(list) = std::env::var("VERIF_FUZZ_STATS") {
            // one stats file per campaign (colon-separated)
            let mut all = vec![];
            for p in list.split(':').filter(|p| !p.is_empty()) {
                if let Ok(txt) = std::fs::read_to_string(p) {
                    if let Ok(v) = serde_json::from_str::<Value>(&txt) {
                        all.push(v);
                    }
                }
            }
            match all.len() {
                0 => {}
                1 => {
                    coverage.insert("fuzz_campaign".into(), all.pop().unwrap());
                }
                _ => {
                    coverage.insert("fuzz_campaigns".into(), Value::Array(all));
                }
            }
        }
        coverage.insert("threads".into(), self.threads.into());
        coverage.insert(
            "known_finding_lines".into(),
            json!(self.known_lines),
        );
        let ev = json!({
            "property_id": self.id,
            "tier": self.tier.name(),
            "seed": self.seed,
            "level": self.level,
            "coverage": Value::Object(coverage),
            "assumptions": self.assumptions,
            "wall_s": (wall * 1000.0).round() / 1000.0,
            "violations": self.violations.len(),
        });
        let dir = verif_dir().join("evidence");
        let _ = std::fs::create_dir_all(&dir);
        // a partial run (e.g. the `tracing` feature build of C01) writes elsewhere and is merged by the main run
        let path = match std::env::var("VERIF_PART_FILE") {
            Ok(p) if !p.is_empty() => PathBuf::from(p),
            _ => dir.join(format!("{}.json", self.id)),
        };
        std::fs::write(&path, serde_json::to_vec_pretty(&ev).unwrap()).expect("write evidence");
        println!(
            "{} {}: evaluations={} distinct_nontrivial={} known_hits={} excluded={} violations={} wall={:.1}s",
            self.id,
            self.tier.name(),
            self.stats.evaluations,
            self.stats.distinct_nontrivial(),
            self.stats.known_hits.values().sum::<u64>(),
            self.stats.excluded.values().sum::<u64>(),
            self.violations.len(),
            wall
        );
        if self.violations.is_empty() {
            0
        } else {
            1
        }
    }
}

/// files in /verif/regress/<ID>/ sorted by name
pub fn regress_files(id: &str) -> Vec<PathBuf> {
    let dir = verif_dir().join("regress").join(id);
    let mut v: Vec<PathBuf> = std::fs::read_dir(dir)
        .map(|rd| rd.filter_map(|e| e.ok().map(|e| e.path())).collect())
        .unwrap_or_default();
    v.retain(|p| p.is_file() && p.extension().map_or(true, |e| e != "md"));
    v.sort();
    v
}

pub fn ext_of(p: &Path) -> String {
    p.extension()
        .and_then(|e| e.to_str())
        .unwrap_or("")
        .to_string()
}

/// silence panic output (the engine reports what it needs itself)
pub fn quiet_panics() {
    std::panic::set_hook(Box::new(|info| {
        if std::env::var_os("VERIF_SHOW_PANICS").is_some() {
            eprintln!("panic: {info}");
        }
    }));
}

pub fn panic_message(e: &Box<dyn std::any::Any + Send>) -> String {
    if let Some(s) = e.downcast_ref::<&str>() {
        s.to_string()
    } else if let Some(s) = e.downcast_ref::<String>() {
        s.clone()
    } else {
        "panic".to_string()
    }
}
