//! One module per property: `run(ctx)` and `replay(ctx, ext, bytes)`.

use crate::engine::*;

pub mod c01;
pub mod c02;
pub mod c03;
pub mod c04;
pub mod c05;
pub mod c06;
pub mod c07;
pub mod c08;
pub mod c09;
pub mod c10;
pub mod c11;
pub mod c12;
pub mod c13;
pub mod c14;
pub mod c15;
pub mod c16;
pub mod c17;
pub mod c18;
pub mod c19;
pub mod c20;

pub type ReplayFn = fn(&mut Ctx, &str, &[u8]) -> Result<Option<String>, Fail>;

pub fn registry(id: &str) -> Option<(&'static str, fn(&mut Ctx), ReplayFn)> {
    Some(match id {
        "C01" => ("C01", c01::run, c01::replay),
        "C02" => ("C02", c02::run, c02::replay),
        "C03" => ("C03", c03::run, c03::replay),
        "C04" => ("C04", c04::run, c04::replay),
        "C05" => ("C05", c05::run, c05::replay),
        "C06" => ("C06", c06::run, c06::replay),
        "C07" => ("C07", c07::run, c07::replay),
        "C08" => ("C08", c08::run, c08::replay),
        "C09" => ("C09", c09::run, c09::replay),
        "C10" => ("C10", c10::run, c10::replay),
        "C11" => ("C11", c11::run, c11::replay),
        "C12" => ("C12", c12::run, c12::replay),
        "C13" => ("C13", c13::run, c13::replay),
        "C14" => ("C14", c14::run, c14::replay),
        "C15" => ("C15", c15::run, c15::replay),
        "C16" => ("C16", c16::run, c16::replay),
        "C17" => ("C17", c17::run, c17::replay),
        "C18" => ("C18", c18::run, c18::replay),
        "C19" => ("C19", c19::run, c19::replay),
        "C20" => ("C20", c20::run, c20::replay),
        _ => return None,
    })
}

pub const ALL_IDS: &[&str] = &["C01", "C02", "C03", "C04", "C05", "C06", "C07", "C08", "C09", "C10", "C11", "C12", "C13", "C14", "C15", "C16", "C17", "C18", "C19", "C20"];

/// E4: replay every committed reproduction of this property.
/// A file that matches an *open* known finding prints its KNOWN-FINDING line;
/// any other failure is a violation (a fixed defect has returned, or a new one).
pub fn replay_regress_generic(ctx: &mut Ctx, replay: ReplayFn) {
    let files = regress_files(ctx.id);
    let mut seen_open: Vec<String> = vec![];
    for p in files {
        let Ok(bytes) = std::fs::read(&p) else { continue };
        let ext = ext_of(&p);
        if ext == "txt" && p.to_string_lossy().ends_with(".msg.txt") {
            continue;
        }
        ctx.stats.add_extra_u64("regress_files_replayed", 1);
        let res = std::panic::catch_unwind(std::panic::AssertUnwindSafe(|| replay(ctx, &ext, &bytes)));
        match res {
            Ok(Ok(None)) => {}
            Ok(Ok(Some(key))) => {
                let what = ctx
                    .kf
                    .for_property(ctx.id)
                    .find(|f| f.key == key)
                    .map(|f| f.what.clone())
                    .unwrap_or_default();
                seen_open.push(key.clone());
                ctx.known_finding_line(&format!("key={key} {what} (repro {})", p.file_name().unwrap().to_string_lossy()));
            }
            Ok(Err(fail)) => {
                let fail = Fail::new(
                    format!("regress file {} fails: {}", p.display(), fail.msg),
                    fail.ext,
                    fail.artifact,
                );
                ctx.violation(&fail, None);
            }
            Err(e) => {
                let fail = Fail::new(
                    format!("regress file {} panicked: {}", p.display(), panic_message(&e)),
                    "bin",
                    bytes.clone(),
                );
                ctx.violation(&fail, None);
            }
        }
    }
    // open findings whose reproduction no longer reproduces: informational
    let open: Vec<(String, String)> = ctx
        .kf
        .for_property(ctx.id)
        .filter(|f| f.status == "open")
        .map(|f| (f.key.clone(), f.what.clone()))
        .collect();
    for (key, what) in open {
        if !seen_open.contains(&key) {
            println!("RESOLVED-FINDING: property={} key={key} no committed reproduction triggers it any more ({what})", ctx.id);
        }
    }
}

/// A fuzz tape (`.ftape`, from the `tape` fuzz target): the byte tape the property's own generator reads.
/// C20 has two generator families (single parameter sets / histories): the first byte selects.
pub fn replay_ftape(id: &str, ctx: &mut Ctx, data: &[u8]) -> Result<Option<String>, Fail> {
    let Some((id, _run, replay)) = registry(id) else {
        return Err(Fail::new("unknown property", "ftape", data.to_vec()));
    };
    if id == "C20" {
        let (sel, rest) = data.split_first().map_or((0u8, data), |(s, r)| (*s, r));
        return replay(ctx, if sel & 1 == 1 { "htape" } else { "tape" }, rest);
    }
    replay(ctx, "tape", data)
}

/// A grammar-fuzz input (`.gtext`, from the `grammar` fuzz target): three selector bytes, then text
/// that becomes the body of the property's section (C11: any of the six key/value sections, C12:
/// [TimingPoints], C14: [HitObjects]).
pub fn replay_gtext(id: &str, ctx: &mut Ctx, data: &[u8]) -> Result<Option<String>, Fail> {
    if data.len() < 3 {
        return Ok(None);
    }
    let text = String::from_utf8_lossy(&data[3..]).into_owned();
    match id {
        "C11" => c11::fuzz_text(&text).map(|_| None),
        "C12" => c12::fuzz_text([data[0], data[1], data[2]], &text, ctx.open(c12::K6)).map(|k| k.map(str::to_string)),
        "C14" => c14::fuzz_text(data[0], &text).map(|_| None),
        _ => Err(Fail::new("the grammar target covers C11, C12 and C14", "gtext", data.to_vec())),
    }
}
