//! C20 - slider event stream has the legacy structure and timing.

use crate::engine::*;
use rosu_map::section::hit_objects::{SliderEvent, SliderEventType, SliderEventsIter};
use serde_json::{json, Value};

#[derive(Clone, Debug, PartialEq)]
pub struct Params {
    pub start: f64,
    pub dur: f64,
    pub vel: f64,
    pub tick: f64,
    pub len: f64,
    pub spans: i32,
}

impl Params {
    fn to_json(&self) -> Value {
        json!({"start_time": self.start, "span_duration": self.dur, "velocity": self.vel,
               "tick_dist": if self.tick.is_finite() { json!(self.tick) } else { json!("inf") },
               "total_dist": self.len, "span_count": self.spans})
    }
    fn from_json(v: &Value) -> Option<Params> {
        Some(Params {
            start: v["start_time"].as_f64()?,
            dur: v["span_duration"].as_f64()?,
            vel: v["velocity"].as_f64()?,
            tick: if v["tick_dist"].as_str() == Some("inf") { f64::INFINITY } else { v["tick_dist"].as_f64()? },
            len: v["total_dist"].as_f64()?,
            spans: v["span_count"].as_i64()? as i32,
        })
    }
}

fn collect(p: &Params, buf: &mut Vec<SliderEvent>) -> Vec<SliderEvent> {
    SliderEventsIter::new(p.start, p.dur, p.vel, p.tick, p.len, p.spans, buf).collect()
}

#[derive(Clone, Debug)]
struct RefEvent {
    kind: SliderEventType,
    span: i32,
    span_start: f64,
    time: f64,
    progress: f64,
    /// a tick so close to the cut-off that either decision is acceptable
    optional: bool,
}

const REL: f64 = 1e-9;
fn close(a: f64, b: f64) -> bool {
    (a.is_nan() && b.is_nan()) || a == b || (a - b).abs() <= REL * a.abs().max(b.abs()).max(1.0)
}

/// eager reference list written from the statement
fn reference(p: &Params) -> Vec<RefEvent> {
    let len = p.len.min(100_000.0);
    let tick = if p.tick < 0.0 { 0.0 } else if p.tick > len { len } else { p.tick };
    let cutoff = len - 10.0 * p.vel;
    let mut ds: Vec<(f64, bool)> = vec![];
    if tick > 0.0 {
        let mut k = 1.0f64;
        loop {
            let d = k * tick;
            let tol = 1e-9 * len.max(1.0) + 4.0 * f64::EPSILON * k * tick;
            if d > len + tol || d >= cutoff + tol {
                break;
            }
            let optional = (d - cutoff).abs() <= tol || (d - len).abs() <= tol && d > len;
            ds.push((d, optional));
            k += 1.0;
            if k > 5e6 {
                break;
            }
        }
    }
    let mut ev = vec![RefEvent { kind: SliderEventType::Head, span: 0, span_start: p.start, time: p.start, progress: 0.0, optional: false }];
    for span in 0..p.spans {
        let reversed = span % 2 == 1;
        let span_start = p.start + span as f64 * p.dur;
        let mut ticks: Vec<RefEvent> = ds
            .iter()
            .map(|&(d, optional)| {
                let pp = d / len;
                let tp = if reversed { 1.0 - pp } else { pp };
                RefEvent { kind: SliderEventType::Tick, span, span_start, time: span_start + tp * p.dur, progress: pp, optional }
            })
            .collect();
        if reversed {
            ticks.reverse();
        }
        ev.extend(ticks);
        if span < p.spans - 1 {
            ev.push(RefEvent {
                kind: SliderEventType::Repeat,
                span,
                span_start,
                time: span_start + p.dur,
                progress: ((span + 1) % 2) as f64,
                optional: false,
            });
        }
    }
    let total = p.spans as f64 * p.dur;
    let final_span = p.spans - 1;
    let final_start = p.start + final_span as f64 * p.dur;
    let end = p.start + total;
    let last_tick_time = (p.start + total / 2.0).max(end - 36.0);
    let mut prog = (last_tick_time - final_start) / p.dur;
    if p.spans % 2 == 0 {
        prog = 1.0 - prog;
    }
    ev.push(RefEvent { kind: SliderEventType::LastTick, span: final_span, span_start: final_start, time: last_tick_time, progress: prog, optional: false });
    ev.push(RefEvent { kind: SliderEventType::Tail, span: final_span, span_start: final_start, time: end, progress: (p.spans % 2) as f64, optional: false });
    ev
}

/// tick distances are accumulated (d += tick) by the implementation and multiplied (k * tick) by the
/// reference: after k additions the relative difference is up to k * 2^-53, which the span duration
/// scales into the time. Times are therefore compared with an absolute tolerance of
/// 1e-9 * (|span start| + 1) + 2e-11 * span duration, progress values with 1e-9.
fn time_close(a: f64, b: f64, span_start: f64, dur: f64) -> bool {
    (a.is_nan() && b.is_nan()) || a == b || (a - b).abs() <= 1e-9 * (span_start.abs() + 1.0) + 2e-11 * dur.abs()
}

fn same(e: &SliderEvent, r: &RefEvent, dur: f64) -> bool {
    e.kind == r.kind
        && e.span_idx == r.span
        && time_close(e.span_start_time, r.span_start, r.span_start, dur)
        && time_close(e.time, r.time, r.span_start, dur)
        && close(e.path_progress, r.progress)
}

fn fmt_ev(e: &SliderEvent) -> String {
    format!("{:?}[span {} start {} t {} p {}]", e.kind, e.span_idx, e.span_start_time, e.time, e.path_progress)
}

fn compare(p: &Params, got: &[SliderEvent]) -> Result<(), String> {
    let want = reference(p);
    // align, allowing `optional` reference ticks to be absent
    let mut i = 0usize;
    for r in &want {
        if i < got.len() && same(&got[i], r, p.dur) {
            i += 1;
        } else if r.optional {
            continue;
        } else {
            return Err(format!(
                "event #{i}: got {} but the legacy structure requires {:?}[span {} start {} t {} p {}] ({} events produced, {} expected)",
                got.get(i).map_or("<end of stream>".to_string(), fmt_ev),
                r.kind, r.span, r.span_start, r.time, r.progress, got.len(), want.len()
            ));
        }
    }
    if i != got.len() {
        return Err(format!("{} surplus event(s), first: {}", got.len() - i, fmt_ev(&got[i])));
    }
    structural(p, got)
}

/// invariants that do not use the reference list
fn structural(p: &Params, ev: &[SliderEvent]) -> Result<(), String> {
    use SliderEventType::*;
    if ev.len() < 3 || ev[0].kind != Head || ev[ev.len() - 1].kind != Tail || ev[ev.len() - 2].kind != LastTick {
        return Err("stream must be Head ... LastTick Tail".into());
    }
    let body = &ev[1..ev.len() - 2];
    let repeats = body.iter().filter(|e| e.kind == Repeat).count();
    if repeats != (p.spans - 1) as usize {
        return Err(format!("{repeats} repeats for {} spans", p.spans));
    }
    if body.iter().any(|e| !matches!(e.kind, Tick | Repeat)) {
        return Err("only ticks and repeats may lie between head and last tick".into());
    }
    let len = p.len.min(100_000.0);
    let mut per_span: Vec<Vec<f64>> = vec![vec![]; p.spans as usize];
    let mut span = 0i32;
    let mut last_time = f64::NEG_INFINITY;
    for e in body {
        if e.span_idx != span {
            return Err(format!("event {} appears while span {span} is being emitted", fmt_ev(e)));
        }
        if e.time < last_time - 1e-9 * last_time.abs().max(1.0) {
            return Err(format!("events of span {span} are not chronological at {}", fmt_ev(e)));
        }
        last_time = e.time;
        match e.kind {
            Tick => {
                per_span[span as usize].push(e.path_progress);
                let d = e.path_progress * len;
                if !(d < len - 10.0 * p.vel + 1e-6 * len.max(1.0)) {
                    return Err(format!("tick at distance {d} is within 10 ms of travel of the span end (len {len}, velocity {})", p.vel));
                }
                let tick = p.tick.clamp(0.0, len.max(0.0));
                if tick > 0.0 {
                    let k = (d / tick).round();
                    if k < 1.0 || (d - k * tick).abs() > 1e-6 * len.max(1.0) {
                        return Err(format!("tick at distance {d} is not a multiple of the tick distance {tick}"));
                    }
                } else {
                    return Err("tick emitted although the tick distance is zero".into());
                }
            }
            Repeat => {
                span += 1;
                last_time = f64::NEG_INFINITY;
            }
            _ => {}
        }
    }
    for s in per_span.iter_mut() {
        s.sort_by(|a, b| a.partial_cmp(b).unwrap());
    }
    for s in &per_span[1..] {
        if s.len() != per_span[0].len() || s.iter().zip(&per_span[0]).any(|(a, b)| !close(*a, *b)) {
            return Err("ticks are not placed identically on every span".into());
        }
    }
    Ok(())
}

fn junk() -> Vec<SliderEvent> {
    (0..5)
        .map(|i| SliderEvent { kind: SliderEventType::Tick, span_idx: 77 + i, span_start_time: -1.0, time: 1e9 + i as f64, path_progress: 0.123 })
        .collect()
}

fn ticks_per_span(p: &Params) -> usize {
    let len = p.len.min(100_000.0);
    let tick = p.tick.clamp(0.0, len.max(0.0));
    if tick <= 0.0 { 0 } else { (((len - 10.0 * p.vel) / tick).ceil() - 1.0).max(0.0) as usize }
}

fn check_single(p: &Params) -> Result<(), String> {
    // fresh buffer
    let mut fresh = Vec::new();
    let a = collect(p, &mut fresh);
    compare(p, &a)?;
    // buffer pre-filled with junk must not matter
    let mut dirty = junk();
    let b = collect(p, &mut dirty);
    if a != b {
        return Err("the stream depends on what the reusable tick buffer held before".into());
    }
    // the same stream through the Iterator contract: stepping with next() gives the collected events, every
    // size_hint() brackets the number of events still to come, and the iterator stays exhausted after None
    let mut buf = junk();
    let mut it = SliderEventsIter::new(p.start, p.dur, p.vel, p.tick, p.len, p.spans, &mut buf);
    let mut hints = vec![];
    let mut stepped = vec![];
    loop {
        hints.push(it.size_hint());
        match it.next() {
            Some(e) => stepped.push(e),
            None => break,
        }
    }
    if stepped != a {
        return Err(format!("stepping with next() yields {} events, collect() {}", stepped.len(), a.len()));
    }
    for (i, (lo, hi)) in hints.iter().enumerate() {
        let remaining = stepped.len() - i;
        if *lo > remaining || hi.map_or(false, |h| h < remaining) {
            return Err(format!("size_hint() before event #{i} is ({lo}, {hi:?}) but {remaining} events follow"));
        }
    }
    if it.next().is_some() || it.next().is_some() || it.size_hint().0 != 0 {
        return Err("the iterator yields an event (or promises one) after it returned None".into());
    }
    // consumers other than a plain next() loop, started from the beginning and from the middle of the stream
    // (after k calls of next()): fold / for_each, count, last, nth must see the same remaining events
    let n = a.len();
    for k in [0usize, 1, n / 2] {
        if k > n {
            continue;
        }
        let mk = |buf: &mut Vec<SliderEvent>| -> Vec<SliderEvent> {
            let mut it = SliderEventsIter::new(p.start, p.dur, p.vel, p.tick, p.len, p.spans, buf);
            for _ in 0..k {
                it.next();
            }
            it.fold(Vec::new(), |mut v, e| {
                v.push(e);
                v
            })
        };
        let mut b1 = Vec::new();
        let folded = mk(&mut b1);
        if folded != a[k..] {
            return Err(format!("after {k} calls of next(), fold() sees {} events in another order or number than next() would ({} expected)", folded.len(), n - k));
        }
        let mut b2 = Vec::new();
        let mut it = SliderEventsIter::new(p.start, p.dur, p.vel, p.tick, p.len, p.spans, &mut b2);
        for _ in 0..k {
            it.next();
        }
        let mut seen = Vec::new();
        it.for_each(|e| seen.push(e));
        if seen != a[k..] {
            return Err(format!("after {k} calls of next(), for_each() sees other events than next() would"));
        }
        let mut b3 = Vec::new();
        let mut it = SliderEventsIter::new(p.start, p.dur, p.vel, p.tick, p.len, p.spans, &mut b3);
        if k > 0 && it.nth(k - 1) != Some(a[k - 1].clone()) {
            return Err(format!("nth({}) is not event #{}", k - 1, k - 1));
        }
        if it.count() != n - k {
            return Err(format!("count() after {k} events is not {}", n - k));
        }
        let mut b4 = Vec::new();
        let mut it = SliderEventsIter::new(p.start, p.dur, p.vel, p.tick, p.len, p.spans, &mut b4);
        for _ in 0..k {
            it.next();
        }
        if it.last() != a[k..].last().cloned() {
            return Err(format!("last() after {k} events is not the tail"));
        }
    }
    Ok(())
}

// ---- histories: iterators sharing one buffer --------------------------------
#[derive(Clone, Debug)]
pub struct Step {
    pub p: Params,
    /// None = consume fully, Some(j) = take j events then abandon
    pub take: Option<usize>,
}

fn check_history(steps: &[Step]) -> Result<(), String> {
    let mut shared = junk();
    for (i, s) in steps.iter().enumerate() {
        let mut fresh = Vec::new();
        let want = collect(&s.p, &mut fresh);
        let got: Vec<SliderEvent> = match s.take {
            None => SliderEventsIter::new(s.p.start, s.p.dur, s.p.vel, s.p.tick, s.p.len, s.p.spans, &mut shared).collect(),
            Some(j) => SliderEventsIter::new(s.p.start, s.p.dur, s.p.vel, s.p.tick, s.p.len, s.p.spans, &mut shared).take(j).collect(),
        };
        let n = got.len();
        if got[..] != want[..n.min(want.len())] || (s.take.is_none() && n != want.len()) {
            return Err(format!("iterator #{i} sharing the buffer yields a different stream than with a fresh buffer"));
        }
        if s.take.is_none() {
            compare(&s.p, &got).map_err(|e| format!("iterator #{i}: {e}"))?;
        }
    }
    Ok(())
}

// ---- generators --------------------------------------------------------------
fn gen_params(t: &mut Tape) -> Params {
    let spans = match t.weighted(&[6, 2, 1]) {
        0 => t.int(1, 6) as i32,
        1 => t.int(1, 12) as i32,
        _ => t.int(1, 60) as i32,
    };
    let len = match t.weighted(&[6, 2, 1, 1]) {
        0 => t.int(1, 6000) as f64 / 8.0,
        1 => t.unit() * 1200.0,
        2 => *t.pick(&[0.0, 1.0, 1e-3, 99_999.5, 100_000.0, 100_000.5, 200_000.0, 131_072.0]),
        _ => t.unit() * 150_000.0,
    };
    let vel = match t.weighted(&[4, 3, 1]) {
        0 => *t.pick(&[1.0, 0.1, 0.5, 1.4, 2.8, 5.0, 10.0, 0.01]),
        1 => 0.01 + t.unit() * 9.99,
        _ => 0.0,
    };
    let lenc = len.min(100_000.0);
    let tick = match t.weighted(&[5, 3, 2, 1]) {
        0 => lenc * *t.pick(&[1.0 / 4.0, 1.0 / 7.0, 1.0 / 3.0, 1.0 / 2.0, 0.9, 1.0, 2.0, 0.0, 1.0 / 16.0, 1.0 / 100.0]),
        1 => (lenc / 2000.0).max(t.unit() * 200.0),
        2 => *t.pick(&[100.0, 50.0, 140.0, 35.0, 12.5, 1000.0]),
        _ => *t.pick(&[0.0, f64::INFINITY, -5.0, 1e-300]),
    };
    // keep the number of ticks per span bounded (work, not domain)
    let tick = if tick > 0.0 && lenc / tick > 20_000.0 { lenc / 20_000.0 } else { tick };
    let dur = match t.weighted(&[5, 3, 1]) {
        0 => *t.pick(&[1000.0, 50.0, 1.0, 300.0, 72.0, 36.0, 35.0, 10_000.0]),
        1 => 0.1 + t.unit() * 5000.0,
        _ => *t.pick(&[0.5, 1e-3, 18.0, 71.9999]),
    };
    let start = match t.weighted(&[4, 3, 1]) {
        0 => *t.pick(&[0.0, -500.0, 12345.5, 1000.0, 1e6, -1e6]),
        1 => t.int(-1_000_000, 1_000_000) as f64 + t.int(0, 7) as f64 / 8.0,
        _ => t.unit() * 1e5,
    };
    Params { start, dur, vel, tick, len, spans }
}

fn gen_history(t: &mut Tape) -> Vec<Step> {
    let n = 1 + t.below(6);
    (0..n)
        .map(|_| {
            let p = gen_params(t);
            let take = match t.weighted(&[3, 2, 1]) {
                0 => None,
                1 => Some(t.below(12)),
                _ => Some(0),
            };
            Step { p, take }
        })
        .collect()
}

fn grid() -> Vec<Params> {
    let mut v = vec![];
    for spans in 1..=6 {
        for &len in &[0.0, 1.0, 80.0, 1000.0, 100_000.0, 200_000.0] {
            let lenc = f64::min(len, 100_000.0);
            for &ratio in &[0.0, 1.0 / 7.0, 0.25, 1.0 / 3.0, 0.5, 0.9, 1.0, 2.0, f64::INFINITY, 1.0 / 64.0] {
                for &vel in &[0.1, 1.0, 5.0] {
                    for &dur in &[1.0, 50.0, 1000.0] {
                        for &start in &[0.0, -500.0, 12345.5] {
                            let tick = if ratio.is_infinite() { f64::INFINITY } else { lenc * ratio };
                            v.push(Params { start, dur, vel, tick, len, spans });
                        }
                    }
                }
            }
        }
    }
    v
}

fn nontrivial(p: &Params) -> bool {
    p.spans >= 2 && ticks_per_span(p) >= 1
}

pub fn run(ctx: &mut Ctx) {
    ctx.rule = "cases are SliderEventsIter parameter sets (start, span duration, velocity, tick distance, length, span count). Exhaustive grid (spans 1..6 x 10 tick/length ratios x 6 lengths x 3 velocities x 3 durations x 3 start times) + random real parameters + histories of 1..6 iterators sharing one junk-prefilled buffer (consumed fully, partly or not at all). Oracle: eager reference list (kind, span, span start, time, progress; REL 1e-9; a tick within rounding of the cut-off may be present or absent) + structural invariants + fresh-vs-shared-buffer differential. Non-trivial = >= 2 spans and >= 1 tick per span; distinct by construction on the grid, by parameter hash otherwise.".into();
    ctx.assumptions.push("domain: finite parameters, total_dist >= 0, velocity >= 0, span_duration > 0, span_count >= 1 (what the decoder/encoder can pass)".into());
    crate::props::replay_regress_generic(ctx, replay);

    let g = grid();
    let n = g.len() as u64;
    ctx.enumerate("parameter grid", n, |i, st| {
        let p = &g[i as usize];
        st.eval();
        if nontrivial(p) {
            st.nontrivial_distinct();
            if i % 977 == 5 {
                st.sample(|| p.to_json());
            }
        }
        check_single(p).map_err(|m| Fail::json(m, &p.to_json()))
    });

    let cases = ctx.tier.pick(300_000u64, 3_000_000u64);
    ctx.pbt("c20-random", cases, 64, |t, st| {
        let p = gen_params(t);
        st.eval();
        if nontrivial(&p) {
            let fresh = st.nontrivial(hash_f64s(&[p.start, p.dur, p.vel, p.tick, p.len, p.spans as f64]));
            if fresh {
                st.sample(|| p.to_json());
            }
            st.label("ticks and repeats");
        } else if p.spans >= 2 {
            st.label("repeats, no ticks");
        } else {
            st.label("single span");
        }
        check_single(&p).map_err(|m| Fail::json(m, &p.to_json()))
    });

    let hist = ctx.tier.pick(100_000u64, 1_000_000u64);
    ctx.pbt("c20-histories", hist, 256, |t, st| {
        let steps = gen_history(t);
        st.eval();
        let abandoned = steps.iter().any(|s| s.take.is_some());
        if steps.len() >= 2 && abandoned && steps.iter().any(|s| nontrivial(&s.p)) {
            st.nontrivial(hash64(&format!("{steps:?}")));
            st.label("history with an abandoned iterator");
        }
        check_history(&steps).map_err(|m| {
            Fail::json(m, &json!({"history": steps.iter().map(|s| json!({"params": s.p.to_json(), "take": s.take})).collect::<Vec<_>>()}))
        })
    });
}

pub fn replay(_ctx: &mut Ctx, ext: &str, bytes: &[u8]) -> Result<Option<String>, Fail> {
    if ext == "htape" {
        // a generator tape of the history family
        let steps = gen_history(&mut Tape::new(bytes));
        return check_history(&steps).map(|_| None).map_err(|m| {
            Fail::json(m, &json!({"history": steps.iter().map(|s| json!({"params": s.p.to_json(), "take": s.take})).collect::<Vec<_>>()}))
        });
    }
    if ext == "tape" {
        let p = gen_params(&mut Tape::new(bytes));
        return check_single(&p).map(|_| None).map_err(|m| Fail::json(m, &p.to_json()));
    }
    let v: Value = serde_json::from_slice(bytes).map_err(|e| Fail::new(format!("bad JSON: {e}"), "json", bytes.to_vec()))?;
    if let Some(h) = v["history"].as_array() {
        let steps: Option<Vec<Step>> = h
            .iter()
            .map(|s| Some(Step { p: Params::from_json(&s["params"])?, take: s["take"].as_u64().map(|x| x as usize) }))
            .collect();
        let steps = steps.ok_or_else(|| Fail::new("bad history", "json", bytes.to_vec()))?;
        return check_history(&steps).map(|_| None).map_err(|m| Fail::new(m, "json", bytes.to_vec()));
    }
    let p = Params::from_json(&v).ok_or_else(|| Fail::new("bad params", "json", bytes.to_vec()))?;
    check_single(&p).map(|_| None).map_err(|m| Fail::json(m, &p.to_json()))
}
