//! C19 - position along a curve is a faithful arc-length parametrisation.

use crate::engine::*;
use crate::gen::curve::*;
use rosu_map::section::general::GameMode;
use rosu_map::section::hit_objects::{BorrowedCurve, Curve, CurveBuffers, PathControlPoint};
use rosu_map::util::Pos;
use serde_json::{json, Value};

fn case_json(mode: GameMode, pts: &[PathControlPoint], l: Option<f64>) -> Value {
    json!({"mode": mode_name(mode), "points": points_json(pts), "expected_len": l})
}

fn d2(a: Pos, b: Pos) -> f64 {
    (((a.x - b.x) as f64).powi(2) + ((a.y - b.y) as f64).powi(2)).sqrt()
}

fn clamp01(p: f64) -> f64 {
    if p < 0.0 {
        0.0
    } else if p > 1.0 {
        1.0
    } else {
        p
    }
}

fn next_up(x: f64) -> f64 {
    if x == 0.0 {
        f64::from_bits(1)
    } else if x > 0.0 {
        f64::from_bits(x.to_bits() + 1)
    } else {
        f64::from_bits(x.to_bits() - 1)
    }
}
fn next_down(x: f64) -> f64 {
    -next_up(-x)
}

fn check_curve(c: &Curve, mode: GameMode, pts: &[PathControlPoint], l: Option<f64>, extra: &[f64]) -> Result<bool, String> {
    let (path, lengths) = (c.path(), c.lengths());
    if path.iter().any(|p| !p.x.is_finite() || !p.y.is_finite()) || lengths.iter().any(|x| !x.is_finite()) {
        // only the shape of C16's known finding is skipped: osu! mode, the natural path starts with two
        // equal vertices and the Catmull surplus in its second cumulative length is >= L
        let nat = Curve::new(mode, pts, None, &mut CurveBuffers::default());
        let k7 = mode == GameMode::Osu
            && nat.path().len() >= 2
            && nat.path()[0] == nat.path()[1]
            && l.map_or(false, |l| nat.lengths()[1] >= l)
            && path.len() == 2;
        if k7 {
            return Ok(false);
        }
        return Err(format!("the curve has a non-finite point or length: path tail {:?}, lengths tail {:?}", &path[path.len().saturating_sub(2)..], &lengths[lengths.len().saturating_sub(2)..]));
    }
    let dist = c.dist();
    if dist != lengths.last().copied().unwrap_or(0.0) {
        return Err("dist() is not the last cumulative length".into());
    }
    if path.is_empty() {
        if c.position_at(0.3) != Pos::default() {
            return Err("position on an empty path must be the origin".into());
        }
        return Ok(false);
    }
    let scale = path.iter().fold(scale_of(pts), |m, p| m.max(p.x.abs() as f64).max(p.y.abs() as f64));
    // positions are f32 interpolations between f32 vertices: a few ulps of the coordinate magnitude each
    // (16 ulps allowed for a pair of them), plus the f64 rounding of progress x distance
    let eps = 16.0 * 2f64.powi(-23) * scale.max(1.0) + 1e-12 * dist;
    let first = path[0];
    let last = *path.last().unwrap();
    // progress 0 and 1
    if d2(c.position_at(0.0), first) > eps {
        return Err(format!("position_at(0) = {:?} but the first path point is {:?}", c.position_at(0.0), first));
    }
    if d2(c.position_at(1.0), last) > eps {
        return Err(format!("position_at(1) = {:?} but the last path point is {:?}", c.position_at(1.0), last));
    }
    // progress values
    let mut ps: Vec<f64> = vec![
        0.0, 1.0, -1.0, -1e-300, -0.5, 1.5, 7.0, 1e300, -1e300, f64::MIN_POSITIVE, 5e-324, next_up(0.0), next_down(1.0), next_up(1.0), 0.5,
        f64::INFINITY, f64::NEG_INFINITY,
    ];
    for i in 0..=32 {
        ps.push(i as f64 / 32.0);
    }
    ps.extend_from_slice(extra);
    if dist > 0.0 {
        for x in lengths {
            ps.push(x / dist);
        }
    }
    // clamping, distance for a progress
    for &p in &ps {
        let q = clamp01(p);
        let a = c.position_at(p);
        let b = c.position_at(q);
        if a.x.to_bits() != b.x.to_bits() || a.y.to_bits() != b.y.to_bits() {
            return Err(format!("position_at({p:e}) = {a:?} differs from position_at(clamp) = {b:?}"));
        }
        let want = q * dist;
        let got = c.progress_to_dist(p);
        if !((got - want).abs() <= 1e-12 * dist.max(1.0)) {
            return Err(format!("progress_to_dist({p:e}) = {got}, expected progress x distance = {want}"));
        }
        if !a.x.is_finite() || !a.y.is_finite() {
            return Err(format!("position_at({p:e}) is not finite: {a:?}"));
        }
    }
    // never moves farther than the arc length between two progress values
    let mut sorted: Vec<f64> = ps.iter().map(|p| clamp01(*p)).collect();
    sorted.sort_by(|a, b| a.partial_cmp(b).unwrap());
    let mut prev = (sorted[0], c.position_at(sorted[0]));
    for &q in &sorted[1..] {
        let cur = c.position_at(q);
        let moved = d2(prev.1, cur);
        let arc = (q - prev.0) * dist;
        if moved > arc + eps {
            return Err(format!("between progress {} and {q} the position moves {moved} but the arc length is only {arc}", prev.0));
        }
        prev = (q, cur);
    }
    // at each vertex's cumulative length the position is that vertex
    if dist > 0.0 {
        for (i, v) in path.iter().enumerate() {
            let Some(&li) = lengths.get(i) else { break };
            let p = c.position_at(li / dist);
            if d2(p, *v) > eps {
                return Err(format!("position at vertex {i}'s cumulative length {li} is {p:?}, the vertex is {v:?}"));
            }
        }
    } else if d2(c.position_at(0.5), first) > eps {
        return Err("zero-length curve: position must stay at the first point".into());
    }
    // idx_of_dist / interpolate_vertices against a linear scan
    let mut ds: Vec<f64> = ps.iter().map(|p| clamp01(*p) * dist).collect();
    ds.extend(lengths.iter().copied());
    ds.push(dist + 1.0);
    ds.push(-1.0);
    for &d in &ds {
        let i = c.idx_of_dist(d);
        let exact_match = lengths.get(i).map_or(false, |x| *x == d);
        let insertion_ok = lengths[..i.min(lengths.len())].iter().all(|x| *x <= d + 1e-5) && lengths[i.min(lengths.len())..].iter().all(|x| *x >= d - 1e-5);
        if i > lengths.len() || !(exact_match || insertion_ok) {
            return Err(format!("idx_of_dist({d}) = {i} is neither a matching index nor the insertion point in {:?}", &lengths[..lengths.len().min(6)]));
        }
        // interpolate_vertices(i, d): the point between vertex i-1 and i at distance d
        let got = c.interpolate_vertices(i, d);
        let want = if i == 0 {
            first
        } else if i >= path.len() {
            last
        } else {
            let (p0, p1) = (path[i - 1], path[i]);
            let (d0, d1) = (lengths[i - 1], lengths[i]);
            if (d0 - d1).abs() <= f64::EPSILON {
                p0
            } else {
                let w = ((d - d0) / (d1 - d0)) as f32;
                Pos::new(p0.x + (p1.x - p0.x) * w, p0.y + (p1.y - p0.y) * w)
            }
        };
        if d2(got, want) > eps {
            return Err(format!("interpolate_vertices({i}, {d}) = {got:?}, linear interpolation gives {want:?}"));
        }
    }
    // a copy made with clone_from into a curve that held more (and other) points is the same curve
    {
        let long: Vec<PathControlPoint> = (0..(pts.len() * 3 + 40)).map(|i| PathControlPoint { pos: Pos::new((i * 17 % 300) as f32, (i * 31 % 200) as f32), path_type: if i == 0 { Some(rosu_map::section::hit_objects::PathType::LINEAR) } else { None } }).collect();
        let mut other = Curve::new(mode, &long, None, &mut CurveBuffers::default());
        other.clone_from(c);
        if other.path().len() != path.len() || other.lengths().len() != lengths.len() || other.dist().to_bits() != dist.to_bits() || other.lengths().iter().zip(lengths).any(|(a, b)| a.to_bits() != b.to_bits()) {
            return Err(format!("clone_from into a longer curve: {} path points / {} lengths / dist {} instead of {} / {} / {}", other.path().len(), other.lengths().len(), other.dist(), path.len(), lengths.len(), dist));
        }
        let cl = c.clone();
        if cl.path().len() != path.len() || cl.lengths().len() != lengths.len() {
            return Err("clone() differs from the curve".into());
        }
    }
    // borrowed view behaves identically
    let mut bufs = CurveBuffers::default();
    let b = BorrowedCurve::new(mode, pts, l, &mut bufs);
    for &p in &[0.0, 0.25, 0.5, 1.0, 2.0] {
        let (x, y) = (c.position_at(p), b.position_at(p));
        if x.x.to_bits() != y.x.to_bits() || x.y.to_bits() != y.y.to_bits() || c.progress_to_dist(p) != b.progress_to_dist(p) {
            return Err(format!("BorrowedCurve::position_at({p}) differs from Curve::position_at"));
        }
    }
    Ok(path.len() >= 3 && dist > 0.0)
}

fn gen_case(t: &mut Tape) -> (GameMode, Vec<PathControlPoint>, Option<f64>, Vec<f64>) {
    let mode = gen_mode(t);
    let (pts, _) = gen_points_ex(t, 10, true, true);
    let nd = Curve::new(mode, &pts, None, &mut CurveBuffers::default()).dist();
    let l = match t.weighted(&[3, 2, 2, 1, 1, 2]) {
        0 => None,
        1 => Some(nd * (0.05 + 0.9 * t.unit())),
        2 => Some(nd * 1.5 + 10.0),
        3 => Some(*t.pick(&[1e-3, 1.0, 131072.0])),
        4 => Some(nd),
        _ => {
            // exactly the cumulative length of one of the natural curve's vertices (bit-equal), or one ulp beside it
            let nat = Curve::new(mode, &pts, None, &mut CurveBuffers::default());
            let ls = nat.lengths();
            if ls.is_empty() {
                None
            } else {
                let x = ls[t.below(ls.len())];
                Some(match t.below(4) {
                    0 => next_up(x),
                    1 => next_down(x),
                    _ => x,
                })
            }
        }
    }
    .filter(|l| *l > 0.0 && l.is_finite());
    let n = t.below(17);
    let extra: Vec<f64> = (0..n)
        .map(|_| match t.below(4) {
            0 => t.unit(),
            1 => t.unit() * 3.0 - 1.0,
            2 => 1.0 - t.unit() * 1e-9,
            _ => t.unit() * 1e-9,
        })
        .collect();
    (mode, pts, l, extra)
}

pub fn run(ctx: &mut Ctx) {
    ctx.rule = "cases are (curve, progress values): curves from the C16/C17 generators (1..10 control points, all coordinate classes incl. duplicates / collinear / zero-length, natural or length-adjusted incl. the trailing-duplicate extra-length case) x ~70 progress values (0, 1, negatives, >1, +-inf, subnormals, 1-ulp neighbours of 0 and 1, 33 even steps, every lengths[i]/dist, random). Oracle: position_at(0/1) = first/last point, clamping is exact, progress_to_dist = clamp(p) x dist, position never moves farther than the arc length between two progress values (eps = 16 f32 ulps of the coordinate scale), position at each vertex's cumulative length is the vertex, idx_of_dist / interpolate_vertices agree with a linear scan, BorrowedCurve agrees with Curve. NaN progress is outside the stated domain. Non-trivial = curve with >= 3 vertices and dist > 0; distinct by hash(mode, points, L).".into();
    ctx.assumptions.push("curves with non-finite vertices (known finding of C16) are skipped here and counted as excluded".into());
    crate::props::replay_regress_generic(ctx, replay);
    let cases = ctx.tier.pick(200_000u64, 2_000_000u64);
    ctx.pbt("c19-random", cases, 220, |t, st| {
        let (mode, pts, l, extra) = gen_case(t);
        st.eval();
        let c = Curve::new(mode, &pts, l, &mut CurveBuffers::default());
        st.add_extra_u64("progress_probes", 70 + extra.len() as u64 + c.lengths().len() as u64);
        match check_curve(&c, mode, &pts, l, &extra) {
            Ok(nontrivial) => {
                if nontrivial {
                    let fresh = st.nontrivial(hash_points(mode, &pts, l));
                    if fresh && pts.len() >= 3 {
                        st.sample(|| case_json(mode, &pts, l));
                    }
                } else if c.path().iter().any(|p| p.x.is_nan() || p.y.is_nan()) {
                    st.exclude("non-finite curve (C16 known finding)");
                }
                if c.lengths().len() > c.path().len() && !c.path().is_empty() {
                    st.label("extra length entry (trailing duplicate, L > natural)");
                }
                if c.dist() == 0.0 {
                    st.label("zero-length curve");
                }
                if l.is_some() {
                    st.label("length-adjusted");
                }
                Ok(())
            }
            Err(m) => Err(Fail::json(m, &case_json(mode, &pts, l))),
        }
    });
}

pub fn replay(_ctx: &mut Ctx, ext: &str, bytes: &[u8]) -> Result<Option<String>, Fail> {
    let (mode, pts, l, extra) = if ext == "tape" {
        gen_case(&mut Tape::new(bytes))
    } else {
        let v: Value = serde_json::from_slice(bytes).map_err(|e| Fail::new(format!("bad JSON {e}"), "json", bytes.to_vec()))?;
        let mode = v["mode"].as_str().and_then(mode_from_name).ok_or_else(|| Fail::new("bad mode", "json", bytes.to_vec()))?;
        let pts = points_from_json(&v["points"]).ok_or_else(|| Fail::new("bad points", "json", bytes.to_vec()))?;
        (mode, pts, v["expected_len"].as_f64(), vec![])
    };
    let c = Curve::new(mode, &pts, l, &mut CurveBuffers::default());
    check_curve(&c, mode, &pts, l, &extra).map(|_| None).map_err(|m| Fail::json(m, &case_json(mode, &pts, l)))
}
