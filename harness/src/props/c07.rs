//! C07 - specialised decoders agree with the full decoder.

use crate::engine::*;
use crate::props::c01::{gen_input, Input};
use crate::refmodel::framing::{decode_bytes, frame};
use rosu_map::section::colors::Colors;
use rosu_map::section::difficulty::Difficulty;
use rosu_map::section::editor::Editor;
use rosu_map::section::events::Events;
use rosu_map::section::general::General;
use rosu_map::section::hit_objects::{HitObjectKind, HitObjects};
use rosu_map::section::metadata::Metadata;
use rosu_map::section::timing_points::TimingPoints;
use rosu_map::Beatmap;
use serde_json::json;

macro_rules! cmp_fields {
    ($who:expr, $a:expr, $b:expr, $($f:ident),*) => {
        $( if $a.$f != $b.$f {
            return Err(format!("{}::{} = {:?} but Beatmap::{} = {:?}", $who, stringify!($f), $a.$f, stringify!($f), $b.$f).chars().take(700).collect());
        } )*
    };
}

pub fn agree(x: &[u8]) -> Result<Beatmap, String> {
    let e = |e: std::io::Error| format!("decode error {e}");
    let b: Beatmap = rosu_map::from_bytes(x).map_err(e)?;
    let g: General = rosu_map::from_bytes(x).map_err(e)?;
    cmp_fields!("General", g, b, audio_file, audio_lead_in, preview_time, default_sample_bank, default_sample_volume, stack_leniency, mode,
        letterbox_in_breaks, special_style, widescreen_storyboard, epilepsy_warning, samples_match_playback_rate, countdown, countdown_offset);
    let ed: Editor = rosu_map::from_bytes(x).map_err(e)?;
    cmp_fields!("Editor", ed, b, bookmarks, distance_spacing, beat_divisor, grid_size, timeline_zoom);
    let m: Metadata = rosu_map::from_bytes(x).map_err(e)?;
    cmp_fields!("Metadata", m, b, title, title_unicode, artist, artist_unicode, creator, version, source, tags, beatmap_id, beatmap_set_id);
    let d: Difficulty = rosu_map::from_bytes(x).map_err(e)?;
    cmp_fields!("Difficulty", d, b, hp_drain_rate, circle_size, overall_difficulty, approach_rate, slider_multiplier, slider_tick_rate);
    let ev: Events = rosu_map::from_bytes(x).map_err(e)?;
    cmp_fields!("Events", ev, b, background_file, breaks);
    let c: Colors = rosu_map::from_bytes(x).map_err(e)?;
    cmp_fields!("Colors", c, b, custom_combo_colors, custom_colors);
    let tp: TimingPoints = rosu_map::from_bytes(x).map_err(e)?;
    cmp_fields!("TimingPoints", tp, b, audio_file, audio_lead_in, preview_time, default_sample_bank, default_sample_volume, stack_leniency, mode,
        letterbox_in_breaks, special_style, widescreen_storyboard, epilepsy_warning, samples_match_playback_rate, countdown, countdown_offset, control_points);
    let ho: HitObjects = rosu_map::from_bytes(x).map_err(e)?;
    cmp_fields!("HitObjects", ho, b, audio_file, audio_lead_in, preview_time, default_sample_bank, default_sample_volume, stack_leniency, mode,
        letterbox_in_breaks, special_style, widescreen_storyboard, epilepsy_warning, samples_match_playback_rate, countdown, countdown_offset,
        hp_drain_rate, circle_size, overall_difficulty, approach_rate, slider_multiplier, slider_tick_rate, background_file, breaks, control_points);
    if ho.hit_objects.len() != b.hit_objects.len() {
        return Err(format!("HitObjects has {} objects, Beatmap {}", ho.hit_objects.len(), b.hit_objects.len()));
    }
    for (i, (p, q)) in ho.hit_objects.iter().zip(&b.hit_objects).enumerate() {
        if p != q {
            return Err(format!("hit object {i}: HitObjects {:?} but Beatmap {:?}", p, q).chars().take(900).collect());
        }
        if let (HitObjectKind::Slider(s), HitObjectKind::Slider(u)) = (&p.kind, &q.kind) {
            if s.path.expected_dist().map(f64::to_bits) != u.path.expected_dist().map(f64::to_bits) {
                return Err(format!("hit object {i}: requested length {:?} vs {:?}", s.path.expected_dist(), u.path.expected_dist()));
            }
        }
    }
    Ok(b)
}

fn sections_present(x: &[u8]) -> (usize, usize) {
    let text = decode_bytes(x);
    let fr = frame(&text);
    let mut secs: Vec<_> = fr.trace.iter().map(|(s, _)| *s).collect();
    secs.dedup();
    secs.sort_by_key(|s| *s as u8);
    secs.dedup();
    (secs.len(), fr.trace.len())
}

fn check(input: &Input, st: &mut Stats) -> CaseResult {
    st.eval();
    match agree(&input.bytes) {
        Ok(b) => {
            let (nsec, nlines) = sections_present(&input.bytes);
            st.label(&format!("family:{}", input.family));
            let mut d = Beatmap::default();
            d.format_version = b.format_version;
            if b != d && nsec >= 2 {
                let fresh = st.nontrivial(hash64(&input.bytes));
                if fresh && input.bytes.len() < 500 && nlines >= 4 {
                    st.sample(|| json!({"family": input.family, "bytes_lossy": String::from_utf8_lossy(&input.bytes)}));
                }
            }
            Ok(())
        }
        Err(m) => Err(Fail::new(m, "osu", input.bytes.clone())),
    }
}

pub fn run(ctx: &mut Ctx) {
    ctx.rule = "cases are the inputs of C01 (noise, hostile documents, mutated / spliced bundled maps, byte mutations, accepted documents; four encodings) plus every bundled file. Oracle: for General, Editor, Metadata, Difficulty, Events, Colors, TimingPoints, HitObjects every field the type shares with Beatmap is equal (projection tables written per type; control points and hit objects by ==, plus the requested slider length). Non-trivial = the Beatmap differs from the default and lines of >= 2 different sections reach a parser; distinct by hash of the bytes.".into();
    crate::props::replay_regress_generic(ctx, replay);
    let files = crate::gen::corpus::bundled();
    ctx.enumerate("every bundled file", files.len() as u64, |i, st| {
        let input = Input { bytes: files[i as usize].bytes.clone(), family: "bundled", sentinel: None };
        let r = check(&input, st);
        if r.is_ok() {
            st.nontrivial_distinct();
        }
        r
    });
    let cases = ctx.tier.pick(600_000u64, 4_000_000u64);
    ctx.pbt("c07-random", cases, 3000, |t, st| {
        let input = gen_input(t);
        check(&input, st)
    });
    // map-level documents of C15 (exact sample-point / break boundaries, nested breaks, colliding object times)
    let cases = ctx.tier.pick(60_000u64, 600_000u64);
    ctx.pbt("c07-map-level", cases, 700, |t, st| {
        let (d, k) = crate::props::c15::gen_case(t);
        let text = crate::props::c15::render(&d, k);
        let input = Input { bytes: text.into_bytes(), family: "map-level", sentinel: None };
        check(&input, st)
    });
    // scale: very many rejected lines in one section (1 000 .. 131 073) before real content, very long lines, big sliders
    let cases = ctx.tier.pick(200u64, 2_000u64);
    ctx.pbt("c07-scale", cases, 400, |t, st| {
        let (text, family) = if t.chance(50) { (crate::gen::doc::gen_many_lines_doc(t), "very many lines") } else { crate::gen::doc::gen_scale_doc(t) };
        let enc = crate::refmodel::framing::ENCS[t.below(4)];
        let input = Input { bytes: crate::refmodel::framing::encode_text(&text, enc), family, sentinel: None };
        check(&input, st)
    });
}

pub fn replay(_ctx: &mut Ctx, ext: &str, bytes: &[u8]) -> Result<Option<String>, Fail> {
    let b = if ext == "tape" { gen_input(&mut Tape::new(bytes)).bytes } else { bytes.to_vec() };
    agree(&b).map(|_| None).map_err(|m| Fail::new(m, "osu", b))
}
