//! C04 - the encoder only emits text that its own decoder accepts.

use crate::engine::*;
use crate::gen::doc::*;
use crate::props::c01::gen_input;
use rosu_map::section::hit_objects::{CurveBuffers, HitObjectKind};
use rosu_map::section::Section;
use rosu_map::{Beatmap, BeatmapState, DecodeBeatmap, DecodeState};
use serde_json::json;

pub const K1: &str = "c04.comment_marker_in_file_name";
pub const K3: &str = "c04.natural_length_above_limit";
pub const K10: &str = "c04.sample_point_time_beyond_limit";
pub const K14: &str = "c04.control_point_times_equal_but_not_identical";

const CANON: [(&str, Section); 8] = [
    ("[General]", Section::General),
    ("[Editor]", Section::Editor),
    ("[Metadata]", Section::Metadata),
    ("[Difficulty]", Section::Difficulty),
    ("[Events]", Section::Events),
    ("[TimingPoints]", Section::TimingPoints),
    ("[Colours]", Section::Colors),
    ("[HitObjects]", Section::HitObjects),
];

fn parse_into(st: &mut BeatmapState, sec: Section, line: &str) -> Result<(), String> {
    let r = match sec {
        Section::General => Beatmap::parse_general(st, line),
        Section::Editor => Beatmap::parse_editor(st, line),
        Section::Metadata => Beatmap::parse_metadata(st, line),
        Section::Difficulty => Beatmap::parse_difficulty(st, line),
        Section::Events => Beatmap::parse_events(st, line),
        Section::TimingPoints => Beatmap::parse_timing_points(st, line),
        Section::Colors => Beatmap::parse_colors(st, line),
        Section::HitObjects => Beatmap::parse_hit_objects(st, line),
        _ => Ok(()),
    };
    r.map_err(|e| {
        let mut s = format!("{e}");
        let mut src = std::error::Error::source(&e);
        while let Some(x) = src {
            s.push_str(&format!(": {x}"));
            src = x.source();
        }
        s
    })
}

/// key -> textual value of the field in a Beatmap (for the "nothing is misread" check)
fn field_of(b: &Beatmap, key: &str) -> Option<String> {
    Some(match key {
        "AudioFilename" => format!("{:?}", b.audio_file),
        "AudioLeadIn" => format!("{:?}", b.audio_lead_in),
        "PreviewTime" => format!("{:?}", b.preview_time),
        "Countdown" => format!("{:?}", b.countdown),
        "SampleSet" => return Some("<derived>".into()),
        "StackLeniency" => format!("{:?}", b.stack_leniency),
        "Mode" => format!("{:?}", b.mode),
        "LetterboxInBreaks" => format!("{:?}", b.letterbox_in_breaks),
        "EpilepsyWarning" => format!("{:?}", b.epilepsy_warning),
        "CountdownOffset" => format!("{:?}", b.countdown_offset),
        "SpecialStyle" => format!("{:?}", b.special_style),
        "WidescreenStoryboard" => format!("{:?}", b.widescreen_storyboard),
        "SamplesMatchPlaybackRate" => format!("{:?}", b.samples_match_playback_rate),
        "Bookmarks" => format!("{:?}", b.bookmarks),
        "DistanceSpacing" => format!("{:?}", b.distance_spacing),
        "BeatDivisor" => format!("{:?}", b.beat_divisor),
        "GridSize" => format!("{:?}", b.grid_size),
        "TimelineZoom" => format!("{:?}", b.timeline_zoom),
        "Title" => format!("{:?}", b.title),
        "TitleUnicode" => format!("{:?}", b.title_unicode),
        "Artist" => format!("{:?}", b.artist),
        "ArtistUnicode" => format!("{:?}", b.artist_unicode),
        "Creator" => format!("{:?}", b.creator),
        "Version" => format!("{:?}", b.version),
        "Source" => format!("{:?}", b.source),
        "Tags" => format!("{:?}", b.tags),
        "BeatmapID" => format!("{:?}", b.beatmap_id),
        "BeatmapSetID" => format!("{:?}", b.beatmap_set_id),
        "HPDrainRate" => format!("{:?}", b.hp_drain_rate),
        "CircleSize" => format!("{:?}", b.circle_size),
        "OverallDifficulty" => format!("{:?}", b.overall_difficulty),
        "ApproachRate" => format!("{:?}", b.approach_rate),
        "SliderMultiplier" => format!("{:?}", b.slider_multiplier),
        "SliderTickRate" => format!("{:?}", b.slider_tick_rate),
        _ => return None,
    })
}

fn key_section(key: &str) -> Option<Section> {
    Some(match key {
        "AudioFilename" | "AudioLeadIn" | "PreviewTime" | "Countdown" | "SampleSet" | "StackLeniency" | "Mode" | "LetterboxInBreaks" | "EpilepsyWarning"
        | "CountdownOffset" | "SpecialStyle" | "WidescreenStoryboard" | "SamplesMatchPlaybackRate" => Section::General,
        "Bookmarks" | "DistanceSpacing" | "BeatDivisor" | "GridSize" | "TimelineZoom" => Section::Editor,
        "Title" | "TitleUnicode" | "Artist" | "ArtistUnicode" | "Creator" | "Version" | "Source" | "Tags" | "BeatmapID" | "BeatmapSetID" => Section::Metadata,
        "HPDrainRate" | "CircleSize" | "OverallDifficulty" | "ApproachRate" | "SliderMultiplier" | "SliderTickRate" => Section::Difficulty,
        _ => return None,
    })
}

pub struct Outcome {
    pub nontrivial: bool,
    pub known: Vec<&'static str>,
    pub labels: Vec<&'static str>,
}

pub fn check_map(m1: &Beatmap, open_k1: bool, open_k3: bool) -> Result<Outcome, String> {
    check_map_k(m1, open_k1, open_k3, crate::engine::KnownFindings::load().is_open("C04", K10))
}

pub fn check_map_k(m1: &Beatmap, open_k1: bool, open_k3: bool, open_k10: bool) -> Result<Outcome, String> {
    let e = m1.clone().encode_to_string().map_err(|e| format!("encode error {e}"))?;
    let lines: Vec<&str> = e.split('\n').collect();
    let mut known = vec![];
    // (1) version line
    if lines.first().copied() != Some(&format!("osu file format v{}", m1.format_version)[..]) {
        return Err(format!("line 0 is {:?}, expected the format-version line for v{}", lines.first(), m1.format_version));
    }
    // (2) headers: exactly the eight canonical ones, once each, in order
    let headers: Vec<(usize, Section)> = lines.iter().enumerate().filter_map(|(i, l)| Section::try_from_line(l.trim_end()).map(|s| (i, s))).collect();
    let got: Vec<Section> = headers.iter().map(|h| h.1).collect();
    let want: Vec<Section> = CANON.iter().map(|c| c.1).collect();
    if got != want {
        return Err(format!("recognised section headers are {:?}, expected the eight canonical ones once each in order", got));
    }
    for (k, (i, _)) in headers.iter().enumerate() {
        if lines[*i] != CANON[k].0 {
            return Err(format!("header line {:?} is not written canonically", lines[*i]));
        }
    }
    if lines[1..headers[0].0].iter().any(|l| !l.trim().is_empty()) {
        return Err("non-blank text between the version line and the first header".into());
    }
    // K1 / K3 triggers in M1
    let k1_trigger = m1.audio_file.contains("//") || m1.background_file.contains("//");
    let mut bufs = CurveBuffers::default();
    let mut m1c = m1.clone();
    let k3_lines: Vec<usize> = m1c
        .hit_objects
        .iter_mut()
        .enumerate()
        .filter_map(|(i, h)| match &mut h.kind {
            HitObjectKind::Slider(s) => {
                if s.path.expected_dist().is_none() && s.path.curve_with_bufs(&mut bufs).dist() > 131072.0 {
                    Some(i)
                } else {
                    None
                }
            }
            _ => None,
        })
        .collect();
    // (3) every non-blank line inside a section is accepted, fed in order into one state
    let mut st = BeatmapState::create(m1.format_version);
    let fresh_default: Beatmap = BeatmapState::create(m1.format_version).into();
    let mut counts = std::collections::HashMap::<u8, usize>::new();
    let mut ho_line = 0usize;
    let (mut combo_lines, mut named_lines, mut break_lines, mut timing_lines) = (0, 0, 0, 0);
    let mut timing_times: Vec<(f64, String)> = vec![];
    for (k, (start, sec)) in headers.iter().enumerate() {
        let end = headers.get(k + 1).map_or(lines.len(), |h| h.0);
        for l in &lines[start + 1..end] {
            let line = l.trim_end();
            if line.is_empty() {
                continue;
            }
            if <Beatmap as DecodeBeatmap>::should_skip_line(line) {
                return Err(format!("the decoder would skip the encoded line {:?} of {:?}", line, sec));
            }
            *counts.entry(*sec as u8).or_insert(0) += 1;
            let res = parse_into(&mut st, *sec, line);
            if *sec == Section::HitObjects {
                ho_line += 1;
            }
            if let Err(err) = res {
                if *sec == Section::HitObjects && k3_lines.contains(&(ho_line - 1)) {
                    if open_k3 {
                        if !known.contains(&K3) {
                            known.push(K3);
                        }
                        continue;
                    }
                    return Err(format!("[natural length above the limit] the decoder rejects the encoded hit-object line {:?}: {err}", line));
                }
                // K10: a sample point collected from an object's end / node time beyond +-(2^31-1)
                if *sec == Section::TimingPoints {
                    let t = line.split(',').next().and_then(|s| s.trim().parse::<f64>().ok());
                    if t.map_or(false, |t| t.abs() > 2147483647.0) {
                        if open_k10 {
                            if !known.contains(&K10) {
                                known.push(K10);
                            }
                            continue;
                        }
                        return Err(format!("[time beyond the parse limit] the decoder rejects the encoded timing line {:?}: {err}", line));
                    }
                }
                return Err(format!("the decoder rejects the encoded line {:?} of {:?}: {err}", line, sec));
            }
            // (4) nothing is misread
            match sec {
                Section::General | Section::Editor | Section::Metadata | Section::Difficulty => {
                    let key = line.split(':').next().unwrap_or("").trim();
                    if key_section(key) != Some(*sec) {
                        return Err(format!("encoded line {:?} does not carry a recognised key of {:?}", line, sec));
                    }
                    let mut one = BeatmapState::create(m1.format_version);
                    let _ = parse_into(&mut one, *sec, line);
                    let b1: Beatmap = one.into();
                    let (got, want) = (field_of(&b1, key).unwrap(), field_of(m1, key).unwrap());
                    if got != want {
                        if key == "AudioFilename" && k1_trigger {
                            if open_k1 {
                                if !known.contains(&K1) {
                                    known.push(K1);
                                }
                                continue;
                            }
                        }
                        return Err(format!("encoded line {:?} is read back as {got}, the map holds {want}", line));
                    }
                    let _ = &fresh_default;
                }
                Section::Events => {
                    let ty = line.split(',').next().unwrap_or("");
                    if ty == "0" {
                        let mut one = BeatmapState::create(m1.format_version);
                        let _ = parse_into(&mut one, *sec, line);
                        let b1: Beatmap = one.into();
                        if b1.background_file != m1.background_file {
                            if k1_trigger && open_k1 {
                                if !known.contains(&K1) {
                                    known.push(K1);
                                }
                            } else {
                                return Err(format!("background line {:?} is read back as {:?}, the map holds {:?}", line, b1.background_file, m1.background_file));
                            }
                        }
                    } else if ty == "2" {
                        break_lines += 1;
                    } else {
                        return Err(format!("unexpected event line {:?}", line));
                    }
                }
                Section::TimingPoints => {
                    timing_lines += 1;
                    if let Some(t) = line.split(',').next().and_then(|f| f.trim().parse::<f64>().ok()) {
                        timing_times.push((t, line.to_string()));
                    }
                }
                Section::Colors => {
                    if line.starts_with("Combo") {
                        combo_lines += 1;
                    } else {
                        named_lines += 1;
                    }
                }
                _ => {}
            }
        }
    }
    let m2: Beatmap = st.into();
    // every timing line the encoder writes leaves a record: the encoder only writes lines that change something,
    // so after reading back some control point (of any of the four kinds) sits at the line's time
    for (t, line) in &timing_times {
        let cp = &m2.control_points;
        let hit = cp.timing_points.iter().any(|p| p.time == *t) || cp.difficulty_points.iter().any(|p| p.time == *t) || cp.effect_points.iter().any(|p| p.time == *t) || cp.sample_points.iter().any(|p| p.time == *t);
        if !hit {
            // K14 (root cause of C02's K11): another written timing line has a time that is "the same" for the
            // decoder's grouping (closer than f64::EPSILON, or 0 next to -0) without being the identical float
            // (anywhere among the written lines: a chain 0, 5e-17, 3e-16 regroups the lines after it as well)
            let near = timing_times.iter().enumerate().any(|(i, (a, _))| timing_times[i + 1..].iter().any(|(b, _)| a.to_bits() != b.to_bits() && (a - b).abs() < f64::EPSILON));
            static K14_OPEN: std::sync::OnceLock<bool> = std::sync::OnceLock::new();
            if near && *K14_OPEN.get_or_init(|| crate::engine::KnownFindings::load().is_open("C04", K14)) {
                if !known.contains(&K14) {
                    known.push(K14);
                }
                continue;
            }
            return Err(format!("the encoded timing line {line:?} leaves no control point at its time when the file is read back (dropped entirely)"));
        }
    }
    if break_lines != m1.breaks.len() || m2.breaks != m1.breaks {
        return Err(format!("{} break lines for {} breaks (read back {:?})", break_lines, m1.breaks.len(), m2.breaks));
    }
    if combo_lines != m1.custom_combo_colors.len() || m2.custom_combo_colors != m1.custom_combo_colors {
        return Err(format!("{} combo colour lines for {} combo colours", combo_lines, m1.custom_combo_colors.len()));
    }
    if named_lines != m1.custom_colors.len() || m2.custom_colors != m1.custom_colors {
        return Err(format!("{} named colour lines for {} named colours (read back {:?})", named_lines, m1.custom_colors.len(), m2.custom_colors));
    }
    if m2.bookmarks != m1.bookmarks {
        return Err("bookmarks are not read back".into());
    }
    if ho_line != m1.hit_objects.len() {
        return Err(format!("{} hit-object lines for {} hit objects", ho_line, m1.hit_objects.len()));
    }
    if known.contains(&K3) {
        // the lost objects are the known finding; compare the others
        let kept: Vec<&rosu_map::section::hit_objects::HitObject> = m1.hit_objects.iter().enumerate().filter(|(i, _)| !k3_lines.contains(i)).map(|(_, h)| h).collect();
        if m2.hit_objects.len() != kept.len() {
            return Err(format!("{} objects read back, {} expected after the known losses", m2.hit_objects.len(), kept.len()));
        }
    } else {
        if m2.hit_objects.len() != m1.hit_objects.len() {
            return Err(format!("{} hit objects are read back from {} lines", m2.hit_objects.len(), ho_line));
        }
        for (i, (a, b)) in m1.hit_objects.iter().zip(&m2.hit_objects).enumerate() {
            if a.start_time != b.start_time || std::mem::discriminant(&a.kind) != std::mem::discriminant(&b.kind) {
                return Err(format!("hit object {i} is read back as a different record: {:?} at {} vs {:?} at {}", std::mem::discriminant(&a.kind), a.start_time, std::mem::discriminant(&b.kind), b.start_time));
            }
            // a slider's control points are part of its record: outside the shapes the format cannot carry
            // unambiguously (C02's finding K5, consecutive Catmull segments) they are read back as written
            if let (HitObjectKind::Slider(p), HitObjectKind::Slider(q)) = (&a.kind, &b.kind) {
                let (c1, c2) = (p.path.control_points(), q.path.control_points());
                if c1 != c2 && !crate::props::c02::k5_shape(c1) && !crate::oracle::roundtrip::has_consecutive_catmull(c1) {
                    return Err(format!("slider {i}: the control points are misread when the encoded line is read back: written from {:?}, read {:?}", c1, c2).chars().take(900).collect());
                }
            }
        }
    }
    let mut labels = vec![];
    let mut last_typed = false;
    let mut has_slider = false;
    let mut natural_written = false;
    for h in &m1.hit_objects {
        if let HitObjectKind::Slider(s) = &h.kind {
            has_slider = true;
            if s.path.control_points().len() > 1 && s.path.control_points().last().map_or(false, |c| c.path_type.is_some()) {
                last_typed = true;
            }
            if s.path.expected_dist().is_none() {
                natural_written = true;
            }
        }
    }
    if has_slider {
        labels.push("has slider");
    }
    if last_typed {
        labels.push("last control point typed");
    }
    if natural_written {
        labels.push("natural length written");
    }
    Ok(Outcome { nontrivial: ho_line >= 1 || timing_lines >= 1, known, labels })
}

fn record(res: Result<Outcome, String>, bytes: &[u8], m1: &Beatmap, st: &mut Stats) -> CaseResult {
    st.eval();
    match res {
        Ok(o) => {
            for k in &o.known {
                st.known(k);
            }
            for l in o.labels {
                st.label(l);
            }
            if o.nontrivial && o.known.is_empty() {
                let fresh = st.nontrivial(hash64(bytes));
                if fresh && bytes.len() < 600 && !m1.hit_objects.is_empty() {
                    st.sample(|| json!({"input_lossy": String::from_utf8_lossy(bytes), "encoded": m1.clone().encode_to_string().unwrap_or_default()}));
                }
            }
            Ok(())
        }
        Err(m) => Err(Fail::new(m, "osu", bytes.to_vec())),
    }
}

pub fn run(ctx: &mut Ctx) {
    ctx.rule = "cases are maps obtained by decoding the inputs of the C01 generator (hostile, mutated, spliced, noise; so including non-chronological input) and accepted documents, plus all bundled maps; every line of their encoding is examined. Oracle: (1) line 0 is the version line of M1.format_version; (2) the lines Section::try_from_line recognises are exactly the eight canonical headers, once each, in order; (3) every non-blank line inside a section is not skipped by should_skip_line and the public parse_<section> returns Ok when the lines are fed in order into one state; (4) nothing is dropped or misread: each key/value line carries a recognised key of its section and, parsed alone, yields M1's value (SampleSet exempt: derived); breaks / combo colours / named colours / bookmarks / hit objects agree in count and value, hit objects in kind and start time index by index. Non-trivial = the encoding has >= 1 hit-object line or >= 1 timing line; distinct by hash of the input.".into();
    let (k1, k3, k10) = (ctx.open(K1), ctx.open(K3), ctx.open(K10));
    crate::props::replay_regress_generic(ctx, replay);
    let files = crate::gen::corpus::bundled();
    ctx.enumerate("every bundled map", files.len() as u64, |i, st| {
        let b = &files[i as usize];
        let m1: Beatmap = rosu_map::from_bytes(&b.bytes).map_err(|e| Fail::new(format!("decode error {e}"), "osu", b.bytes.clone()))?;
        let r = check_map_k(&m1, k1, k3, k10);
        if r.is_ok() {
            st.nontrivial_distinct();
            st.eval();
            return Ok(());
        }
        record(r, &b.bytes, &m1, st)
    });
    let cases = ctx.tier.pick(700_000u64, 5_000_000u64);
    ctx.pbt("c04-random", cases, 3000, |t, st| {
        let bytes = gen_bytes(t);
        let m1: Beatmap = match rosu_map::from_bytes(&bytes) {
            Ok(m) => m,
            Err(e) => return Err(Fail::new(format!("decode error {e}"), "osu", bytes)),
        };
        if crate::props::c01::predicted_events(&m1) > 2.0e6 {
            st.exclude("heavy");
            return Ok(());
        }
        let r = check_map_k(&m1, k1, k3, k10);
        record(r, &bytes, &m1, st)
    });
    // the encoded text is the same through encode / encode_to_string / encode_to_path (fresh and existing targets)
    let files2 = crate::gen::corpus::bundled();
    let cases = ctx.tier.pick(400u64, 4_000u64);
    ctx.pbt("c04-entry-points", cases, 3000, |t, st| {
        let bytes = if t.chance(20) { files2[t.below(files2.len())].bytes.clone() } else { gen_accepted(t, Avoid::NONE, 8).text().into_bytes() };
        let m1: Beatmap = match rosu_map::from_bytes(&bytes) {
            Ok(m) => m,
            Err(e) => return Err(Fail::new(format!("decode error {e}"), "osu", bytes)),
        };
        if crate::props::c01::predicted_events(&m1) > 2.0e6 {
            st.exclude("heavy");
            return Ok(());
        }
        st.eval();
        st.label("encode entry points compared");
        st.nontrivial(hash64(&bytes));
        check_entry_points(&m1, 0).map_err(|m| Fail::new(m, "osu", bytes.clone()))
    });
    let _ = std::fs::remove_dir_all(crate::engine::verif_dir().join("harness/target/tmp").join(format!("c04-{}", std::process::id())));
}

/// the three public encode entry points write the same text; encode_to_path also when the target file
/// already exists (longer or shorter than the new text)
fn check_entry_points(m1: &Beatmap, k: usize) -> Result<(), String> {
    let text = m1.clone().encode_to_string().map_err(|e| format!("encode_to_string error {e}"))?;
    let mut buf = Vec::new();
    m1.clone().encode(&mut buf).map_err(|e| format!("encode error {e}"))?;
    if buf != text.as_bytes() {
        return Err("encode() and encode_to_string() write different text".into());
    }
    // encoding takes `&mut self` (it computes and caches curves): a second encoding of the same instance writes
    // the same text, and the instance still equals the map it was
    let mut inst = m1.clone();
    let t1 = inst.encode_to_string().map_err(|e| format!("encode_to_string error {e}"))?;
    let t2 = inst.encode_to_string().map_err(|e| format!("second encode_to_string error {e}"))?;
    if t1 != text || t2 != text {
        return Err("encoding the same instance twice writes different text".into());
    }
    if &inst != m1 {
        return Err("encoding changed the map instance".into());
    }
    // a writer that accepts only a few bytes per call (a pipe, a socket) must end up with the same text
    struct Dribble(Vec<u8>, usize, usize);
    impl std::io::Write for Dribble {
        fn write(&mut self, b: &[u8]) -> std::io::Result<usize> {
            self.2 += 1;
            let n = b.len().min(1 + (self.2 * 7) % self.1);
            self.0.extend_from_slice(&b[..n]);
            Ok(n)
        }
        fn flush(&mut self) -> std::io::Result<()> {
            Ok(())
        }
    }
    for max in [1usize, 5, 14] {
        let mut w = Dribble(Vec::new(), max, 0);
        m1.clone().encode(&mut w).map_err(|e| format!("encode into a short-writing writer: error {e}"))?;
        if w.0 != text.as_bytes() {
            return Err(format!("encode() into a writer that accepts at most {max} bytes per call leaves {} bytes, the text has {}", w.0.len(), text.len()));
        }
    }
    let dir = crate::engine::verif_dir().join("harness/target/tmp").join(format!("c04-{}", std::process::id()));
    std::fs::create_dir_all(&dir).map_err(|e| format!("tmp dir: {e}"))?;
    let p = dir.join(format!("{:?}-{k}.osu", std::thread::current().id()).replace(['(', ')'], ""));
    for (what, old) in [("a fresh path", None), ("an existing longer file", Some(text.len() + 1 + text.len() / 3)), ("an existing shorter file", Some(text.len() / 2))] {
        let _ = std::fs::remove_file(&p);
        if let Some(n) = old {
            let junk: Vec<u8> = b"[HitObjects]\n1,2,3,1,0\nold content ".iter().copied().cycle().take(n).collect();
            std::fs::write(&p, junk).map_err(|e| format!("tmp write: {e}"))?;
        }
        m1.clone().encode_to_path(&p).map_err(|e| format!("encode_to_path error {e}"))?;
        let got = std::fs::read(&p).map_err(|e| format!("tmp read: {e}"))?;
        if got != text.as_bytes() {
            let _ = std::fs::remove_file(&p);
            return Err(format!("encode_to_path onto {what} leaves {} bytes in the file, encode_to_string gives {} (the file must hold exactly the encoded text)", got.len(), text.len()));
        }
    }
    let _ = std::fs::remove_file(&p);
    Ok(())
}

/// inputs: accepted documents, the C01 families, and (about 0.5 %) the scale / geometry documents
fn gen_bytes(t: &mut Tape) -> Vec<u8> {
    if t.chance(1) && t.chance(50) {
        return crate::gen::doc::gen_scale_doc(t).0.into_bytes();
    }
    if t.chance(35) {
        gen_accepted(t, Avoid::NONE, 8).text().into_bytes()
    } else {
        gen_input(t).bytes
    }
}

pub fn replay(ctx: &mut Ctx, ext: &str, bytes: &[u8]) -> Result<Option<String>, Fail> {
    let b = if ext == "tape" {
        let mut t = Tape::new(bytes);
        gen_bytes(&mut t)
    } else {
        bytes.to_vec()
    };
    let m1: Beatmap = rosu_map::from_bytes(&b).map_err(|e| Fail::new(format!("decode error {e}"), "osu", b.clone()))?;
    match check_map_k(&m1, ctx.open(K1), ctx.open(K3), ctx.open(K10)) {
        Ok(o) => {
            if ext != "tape" && crate::props::c01::predicted_events(&m1) <= 2.0e6 {
                check_entry_points(&m1, 1).map_err(|m| Fail::new(m, "osu", b.clone()))?;
            }
            Ok(o.known.first().map(|k| k.to_string()))
        }
        Err(m) => Err(Fail::new(m, "osu", b)),
    }
}
