//! C18 - curve computation is pure: buffers, caches and API choice do not matter.

use crate::engine::*;
use crate::gen::curve::*;
use rosu_map::section::general::GameMode;
use rosu_map::section::hit_objects::{BorrowedCurve, Curve, CurveBuffers, PathControlPoint, PathType, SliderPath};
use rosu_map::util::Pos;
use serde_json::{json, Value};

#[derive(Clone, Debug)]
pub struct Spec {
    pub mode: GameMode,
    pub pts: Vec<PathControlPoint>,
    pub len: Option<f64>,
}

impl Spec {
    fn to_json(&self) -> Value {
        json!({"mode": mode_name(self.mode), "points": points_json(&self.pts), "expected_len": self.len})
    }
    fn from_json(v: &Value) -> Option<Spec> {
        Some(Spec {
            mode: mode_from_name(v["mode"].as_str()?)?,
            pts: points_from_json(&v["points"])?,
            len: v["expected_len"].as_f64(),
        })
    }
}

#[derive(Clone, Debug)]
pub enum Op {
    Owned(Spec),
    Borrowed(Spec),
    NewPath(Spec),
    PathCurve,
    PathCurveWithBufs,
    PathBorrowed,
    PointsClear,
    PointsPush(f32, f32, Option<PathType>),
    PointsPop,
    PointsMoveLast(f32, f32),
    SetLen(Option<f64>),
    ClearCurve,
}

impl Op {
    fn to_json(&self) -> Value {
        match self {
            Op::Owned(s) => json!({"op": "owned", "spec": s.to_json()}),
            Op::Borrowed(s) => json!({"op": "borrowed", "spec": s.to_json()}),
            Op::NewPath(s) => json!({"op": "new_path", "spec": s.to_json()}),
            Op::PathCurve => json!({"op": "path.curve"}),
            Op::PathCurveWithBufs => json!({"op": "path.curve_with_bufs"}),
            Op::PathBorrowed => json!({"op": "path.borrowed_curve"}),
            Op::PointsClear => json!({"op": "points.clear"}),
            Op::PointsPush(x, y, t) => json!({"op": "points.push", "x": x, "y": y, "type": type_letter(*t)}),
            Op::PointsPop => json!({"op": "points.pop"}),
            Op::PointsMoveLast(x, y) => json!({"op": "points.move_last", "x": x, "y": y}),
            Op::SetLen(l) => json!({"op": "set_len", "len": l}),
            Op::ClearCurve => json!({"op": "clear_curve"}),
        }
    }
    fn from_json(v: &Value) -> Option<Op> {
        Some(match v["op"].as_str()? {
            "owned" => Op::Owned(Spec::from_json(&v["spec"])?),
            "borrowed" => Op::Borrowed(Spec::from_json(&v["spec"])?),
            "new_path" => Op::NewPath(Spec::from_json(&v["spec"])?),
            "path.curve" => Op::PathCurve,
            "path.curve_with_bufs" => Op::PathCurveWithBufs,
            "path.borrowed_curve" => Op::PathBorrowed,
            "points.clear" => Op::PointsClear,
            "points.push" => Op::PointsPush(v["x"].as_f64()? as f32, v["y"].as_f64()? as f32, letter_type(v["type"].as_str()?)),
            "points.pop" => Op::PointsPop,
            "points.move_last" => Op::PointsMoveLast(v["x"].as_f64()? as f32, v["y"].as_f64()? as f32),
            "set_len" => Op::SetLen(v["len"].as_f64()),
            "clear_curve" => Op::ClearCurve,
            _ => return None,
        })
    }
    fn is_compute(&self) -> bool {
        matches!(self, Op::Owned(_) | Op::Borrowed(_) | Op::PathCurve | Op::PathCurveWithBufs | Op::PathBorrowed)
    }
    fn is_mutation(&self) -> bool {
        matches!(self, Op::PointsClear | Op::PointsPush(..) | Op::PointsPop | Op::PointsMoveLast(..) | Op::SetLen(_))
    }
}

fn same(pa: &[Pos], la: &[f64], pb: &[Pos], lb: &[f64]) -> bool {
    pa.len() == pb.len()
        && la.len() == lb.len()
        && pa.iter().zip(pb).all(|(a, b)| a.x.to_bits() == b.x.to_bits() && a.y.to_bits() == b.y.to_bits())
        && la.iter().zip(lb).all(|(a, b)| a.to_bits() == b.to_bits())
}

fn reference(mode: GameMode, pts: &[PathControlPoint], len: Option<f64>) -> Curve {
    Curve::new(mode, pts, len, &mut CurveBuffers::default())
}

fn describe(p: &[Pos], l: &[f64]) -> String {
    format!("{} vertices {:?}.., lengths {:?}..", p.len(), &p[..p.len().min(3)], &l[..l.len().min(3)])
}

pub fn run_ops(ops: &[Op]) -> Result<(), (usize, String)> {
    let mut bufs = CurveBuffers::default();
    let mut path = SliderPath::new(GameMode::Osu, Vec::new(), None);
    // what the path holds at this moment (tracked by the harness)
    let mut cur = Spec { mode: GameMode::Osu, pts: vec![], len: None };
    for (i, op) in ops.iter().enumerate() {
        let check = |what: &str, gp: &[Pos], gl: &[f64], spec: &Spec| -> Result<(), (usize, String)> {
            let want = reference(spec.mode, &spec.pts, spec.len);
            if same(gp, gl, want.path(), want.lengths()) {
                Ok(())
            } else {
                Err((i, format!("{what} returned {} but a fresh computation of the same data gives {}", describe(gp, gl), describe(want.path(), want.lengths()))))
            }
        };
        match op {
            Op::Owned(s) => {
                let c = Curve::new(s.mode, &s.pts, s.len, &mut bufs);
                check("Curve::new with the shared buffers", c.path(), c.lengths(), s)?;
                if s.pts.is_empty() && !(c.path().is_empty() && c.lengths() == [0.0]) {
                    return Err((i, "curve of an empty list must be ([], [0.0])".into()));
                }
                // the borrowed view of an owned curve is the same curve
                let b = c.as_borrowed_curve();
                check("Curve::as_borrowed_curve", b.path(), b.lengths(), s)?;
                if b.dist().to_bits() != c.dist().to_bits() {
                    return Err((i, "as_borrowed_curve().dist() differs from dist()".into()));
                }
            }
            Op::Borrowed(s) => {
                let c = BorrowedCurve::new(s.mode, &s.pts, s.len, &mut bufs);
                check("BorrowedCurve::new with the shared buffers", c.path(), c.lengths(), s)?;
                if s.pts.is_empty() && !(c.path().is_empty() && c.lengths() == [0.0]) {
                    return Err((i, "curve of an empty list must be ([], [0.0])".into()));
                }
                let o = c.to_owned_curve();
                check("BorrowedCurve::to_owned_curve", o.path(), o.lengths(), s)?;
            }
            Op::NewPath(s) => {
                // assignment for odd op indices, `clone_from` (which may reuse the destination, cached curve included) for even ones
                let fresh = SliderPath::new(s.mode, s.pts.clone(), s.len);
                if i % 2 == 1 {
                    path = fresh;
                } else {
                    path.clone_from(&fresh);
                }
                cur = s.clone();
            }
            Op::PathCurve => {
                // a clone (taken before the access, so with whatever cache state the path has) behaves like the original
                let mut cl = path.clone();
                let c = path.curve();
                check("SliderPath::curve", c.path(), c.lengths(), &cur)?;
                let c2 = cl.curve_with_bufs(&mut bufs);
                check("curve_with_bufs of a clone of the path", c2.path(), c2.lengths(), &cur)?;
                if cl != path {
                    return Err((i, "a clone of the path compares unequal to it".into()));
                }
            }
            Op::PathCurveWithBufs => {
                let c = path.curve_with_bufs(&mut bufs);
                check("SliderPath::curve_with_bufs", c.path(), c.lengths(), &cur)?;
            }
            Op::PathBorrowed => {
                let c = path.borrowed_curve(&mut bufs);
                check("SliderPath::borrowed_curve", c.path(), c.lengths(), &cur)?;
            }
            Op::PointsClear => {
                path.control_points_mut().clear();
                cur.pts.clear();
            }
            Op::PointsPush(x, y, t) => {
                let p = PathControlPoint { pos: Pos::new(*x, *y), path_type: *t };
                path.control_points_mut().push(p);
                cur.pts.push(p);
            }
            Op::PointsPop => {
                path.control_points_mut().pop();
                cur.pts.pop();
            }
            Op::PointsMoveLast(x, y) => {
                if let Some(p) = path.control_points_mut().last_mut() {
                    p.pos = Pos::new(*x, *y);
                }
                if let Some(p) = cur.pts.last_mut() {
                    p.pos = Pos::new(*x, *y);
                }
            }
            Op::SetLen(l) => {
                *path.expected_dist_mut() = *l;
                cur.len = *l;
            }
            Op::ClearCurve => path.clear_curve(),
        }
        // accessors agree with the tracked data
        if path.control_points() != cur.pts.as_slice() || path.expected_dist() != cur.len {
            return Err((i, "SliderPath accessors do not reflect the mutation".into()));
        }
    }
    Ok(())
}

fn pool() -> Vec<Spec> {
    let cp = |x: f32, y: f32, t: Option<PathType>| PathControlPoint { pos: Pos::new(x, y), path_type: t };
    vec![
        Spec { mode: GameMode::Osu, pts: vec![], len: None },
        Spec { mode: GameMode::Taiko, pts: vec![cp(0.0, 0.0, Some(PathType::BEZIER))], len: Some(50.0) },
        Spec { mode: GameMode::Osu, pts: vec![cp(0.0, 0.0, Some(PathType::LINEAR)), cp(100.0, 20.0, None)], len: None },
        Spec { mode: GameMode::Catch, pts: vec![cp(0.0, 0.0, Some(PathType::PERFECT_CURVE)), cp(50.0, 50.0, None), cp(100.0, 0.0, None)], len: Some(60.0) },
        Spec {
            mode: GameMode::Osu,
            pts: vec![cp(0.0, 0.0, Some(PathType::BEZIER)), cp(40.0, 90.0, None), cp(120.0, 30.0, Some(PathType::BEZIER)), cp(160.0, 100.0, None), cp(220.0, 10.0, None)],
            len: Some(500.0),
        },
        Spec { mode: GameMode::Osu, pts: vec![cp(0.0, 0.0, Some(PathType::CATMULL)), cp(30.0, 60.0, None), cp(90.0, 20.0, None), cp(130.0, 70.0, None)], len: None },
    ]
}

fn alphabet() -> Vec<Op> {
    let p = pool();
    let mut a: Vec<Op> = p.iter().cloned().map(Op::Borrowed).collect();
    a.push(Op::Owned(p[0].clone()));
    a.push(Op::Owned(p[3].clone()));
    a.push(Op::Owned(p[5].clone()));
    a.extend([
        Op::PathCurveWithBufs,
        Op::PathBorrowed,
        Op::PathCurve,
        Op::PointsClear,
        Op::PointsPush(50.0, 80.0, None),
        Op::PointsPop,
        Op::SetLen(Some(30.0)),
        Op::SetLen(None),
        Op::SetLen(Some(0.0)),
        Op::ClearCurve,
        Op::NewPath(p[4].clone()),
        Op::NewPath(p[0].clone()),
    ]);
    a
}

fn nontrivial(ops: &[Op]) -> bool {
    let computes = ops.iter().filter(|o| o.is_compute()).count();
    if computes < 2 {
        return false;
    }
    // a mutation between two cached accesses, or two computations at all with the shared buffers
    let first = ops.iter().position(|o| o.is_compute()).unwrap();
    let last = ops.iter().rposition(|o| o.is_compute()).unwrap();
    ops[first..last].iter().any(|o| o.is_mutation()) || computes >= 2
}

fn gen_spec(t: &mut Tape) -> Spec {
    let mode = gen_mode(t);
    let pts = match t.weighted(&[6, 3, 18, 1]) {
        0 => vec![],
        1 => vec![PathControlPoint { pos: Pos::new(t.int(0, 512) as f32, t.int(0, 384) as f32), path_type: Some(PathType::BEZIER) }],
        2 => gen_points_ex(t, 8, false, true).0,
        _ => {
            // scale: a long control-point list (beyond the sizes at which scratch buffers are first allocated):
            // one segment of 101..260 points, optionally followed by a short second segment
            let n = *t.pick(&[101usize, 102, 130, 200, 260]);
            let ty = *t.pick(&[PathType::BEZIER, PathType::BEZIER, PathType::CATMULL, PathType::LINEAR]);
            let mut v: Vec<PathControlPoint> = (0..n)
                .map(|i| PathControlPoint { pos: Pos::new(((i * 37) % 512) as f32 + t.int(0, 3) as f32, ((i * 91) % 384) as f32), path_type: if i == 0 { Some(ty) } else { None } })
                .collect();
            if t.chance(40) {
                let k = v.len() - 1 - t.below(3);
                v[k].path_type = Some(*t.pick(&[PathType::BEZIER, PathType::CATMULL, PathType::PERFECT_CURVE, PathType::LINEAR]));
            }
            v
        }
    };
    let len = match t.weighted(&[3, 2, 2, 1]) {
        0 => None,
        1 => Some(1.0 + t.unit() * 60.0),
        2 => Some(100.0 + t.unit() * 900.0),
        _ => Some(*t.pick(&[1e-3, 131072.0, 0.5, 0.0, -4.0, 1e-300])),
    };
    Spec { mode, pts, len }
}

fn gen_ops(t: &mut Tape) -> Vec<Op> {
    let n = t.below(41);
    (0..n)
        .map(|_| match t.weighted(&[3, 4, 2, 2, 3, 3, 1, 2, 1, 1, 2, 1]) {
            0 => Op::Owned(gen_spec(t)),
            1 => Op::Borrowed(gen_spec(t)),
            2 => Op::NewPath(gen_spec(t)),
            3 => Op::PathCurve,
            4 => Op::PathCurveWithBufs,
            5 => Op::PathBorrowed,
            6 => Op::PointsClear,
            7 => Op::PointsPush(t.int(0, 512) as f32, t.int(0, 384) as f32, *t.pick(&[None, None, Some(PathType::BEZIER), Some(PathType::LINEAR), Some(PathType::CATMULL), Some(PathType::PERFECT_CURVE)])),
            8 => Op::PointsPop,
            9 => Op::PointsMoveLast(t.int(0, 512) as f32, t.int(0, 384) as f32),
            10 => Op::SetLen(match t.below(5) {
                0 => None,
                1 => Some(5.0 + t.unit() * 80.0),
                2 => Some(300.0 + t.unit() * 400.0),
                // degenerate requests (the API accepts any value): the curve collapses to its first point
                3 => Some(*t.pick(&[0.0, -1.0, -250.0, 1e-300])),
                _ => Some(*t.pick(&[1e-3, 0.5, 131072.0])),
            }),
            _ => Op::ClearCurve,
        })
        .collect()
}

fn ops_json(ops: &[Op]) -> Value {
    json!({"ops": ops.iter().map(Op::to_json).collect::<Vec<_>>()})
}

pub fn run(ctx: &mut Ctx) {
    ctx.rule = "cases are operation sequences over one shared CurveBuffers and one SliderPath: compute owned / borrowed / via the path cache (curve, curve_with_bufs, borrowed_curve), replace the path, mutate points (clear/push/pop/move) or the requested length through the accessors, clear the cache. Exhaustive: all sequences over a 21-op alphabet (pool of 6 lists: empty, single point, line, arc, multi-segment Bezier, Catmull) up to the stated length; random: up to 40 ops with generated lists. Oracle: every curve returned is bit-identical (path and lengths) to Curve::new with fresh buffers on the data held at that moment; empty list gives ([], [0.0]). Non-trivial = >= 2 computations in the sequence (shared buffers reused) incl. mutation between cached accesses; distinct by construction / by hash of the op list.".into();
    crate::props::replay_regress_generic(ctx, replay);
    let alpha = alphabet();
    let k = alpha.len() as u64;
    let max_len = ctx.tier.pick(5usize, 6usize);
    let mut total = 0u64;
    let mut b = 1u64;
    for _ in 0..=max_len {
        total += b;
        b *= k;
    }
    ctx.enumerate(&format!("op sequences over {k} ops, length<={max_len}"), total, |mut idx, st| {
        let mut len = 0usize;
        let mut block = 1u64;
        while len <= max_len {
            if idx < block {
                break;
            }
            idx -= block;
            block *= k;
            len += 1;
        }
        let mut ops = Vec::with_capacity(len);
        for _ in 0..len {
            ops.push(alpha[(idx % k) as usize].clone());
            idx /= k;
        }
        ops.reverse();
        st.eval();
        if nontrivial(&ops) {
            st.nontrivial_distinct();
            if idx % 50_021 == 0 {
                st.sample(|| ops_json(&ops));
            }
        }
        run_ops(&ops).map_err(|(i, m)| {
            let mut v = ops_json(&ops);
            v["failed_at_op"] = json!(i);
            Fail::json(format!("op #{i}: {m}"), &v)
        })
    });
    let cases = ctx.tier.pick(400_000u64, 3_000_000u64);
    ctx.pbt("c18-random", cases, 1500, |t, st| {
        let ops = gen_ops(t);
        st.eval();
        if nontrivial(&ops) {
            let fresh = st.nontrivial(hash64(&format!("{ops:?}")));
            if fresh && ops.len() >= 5 && ops.len() <= 9 {
                st.sample(|| ops_json(&ops));
            }
        }
        if ops.iter().any(|o| matches!(o, Op::Owned(s) | Op::Borrowed(s) if s.pts.is_empty())) {
            st.label("computes an empty list");
        }
        if ops.iter().any(Op::is_mutation) {
            st.label("mutates through accessors");
        }
        run_ops(&ops).map_err(|(i, m)| {
            let mut v = ops_json(&ops);
            v["failed_at_op"] = json!(i);
            Fail::json(format!("op #{i}: {m}"), &v)
        })
    });
}

pub fn replay(_ctx: &mut Ctx, ext: &str, bytes: &[u8]) -> Result<Option<String>, Fail> {
    let ops = if ext == "tape" {
        gen_ops(&mut Tape::new(bytes))
    } else {
        let v: Value = serde_json::from_slice(bytes).map_err(|e| Fail::new(format!("bad JSON {e}"), "json", bytes.to_vec()))?;
        v["ops"]
            .as_array()
            .and_then(|a| a.iter().map(Op::from_json).collect::<Option<Vec<_>>>())
            .ok_or_else(|| Fail::new("bad op list", "json", bytes.to_vec()))?
    };
    run_ops(&ops).map(|_| None).map_err(|(i, m)| Fail::json(format!("op #{i}: {m}"), &ops_json(&ops)))
}
