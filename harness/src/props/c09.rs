//! C09 - I/O faults are surfaced, never swallowed or turned into partial results.

use crate::engine::*;
use crate::gen::corpus::*;
use crate::io::{marker_of, Schedule, Scripted, ScriptedWriter, WriteFault};
use crate::oracle::cmp::full_diff;
use crate::refmodel::framing::{encode_text, ENCS};
use rosu_map::section::hit_objects::HitObjectKind;
use rosu_map::{Beatmap, DecodeBeatmap};
use serde_json::{json, Value};
use std::io::{BufReader, ErrorKind};
use std::panic::{catch_unwind, AssertUnwindSafe};

/// the five kinds the property names first (indices kept for old replay files), then every other stable
/// non-transient kind: the contract is about "a non-transient error", whatever its kind
const KINDS: [ErrorKind; 19] = [
    ErrorKind::Other, ErrorKind::UnexpectedEof, ErrorKind::PermissionDenied, ErrorKind::TimedOut, ErrorKind::WouldBlock,
    ErrorKind::InvalidData, ErrorKind::InvalidInput, ErrorKind::NotFound, ErrorKind::BrokenPipe, ErrorKind::ConnectionReset,
    ErrorKind::ConnectionAborted, ErrorKind::ConnectionRefused, ErrorKind::NotConnected, ErrorKind::AddrInUse, ErrorKind::AddrNotAvailable,
    ErrorKind::AlreadyExists, ErrorKind::WriteZero, ErrorKind::Unsupported, ErrorKind::OutOfMemory,
];

fn kind_name(k: ErrorKind) -> String {
    format!("{k:?}")
}

#[derive(Clone, Debug)]
pub struct ReadFault {
    pub file: usize,
    pub enc: usize,
    pub offset: usize,
    pub kind: usize,
    pub buffered: bool,
    pub chunk: usize,
    /// the reader fails once and would deliver the rest if asked again
    pub one_shot: bool,
}

fn read_fault_json(f: &ReadFault, files: &[(String, Vec<Vec<u8>>)]) -> Value {
    json!({"side": "read", "file": files[f.file].0, "encoding": ENCS[f.enc].name(), "fault_offset": f.offset, "error_kind": kind_name(KINDS[f.kind]),
           "delivery": if f.buffered { format!("BufReader::with_capacity(8, reader with {}-byte reads)", f.chunk) } else { format!("native BufRead with {}-byte chunks", f.chunk) },
           "fault_mode": if f.one_shot { "reported once, the stream would continue" } else { "every later call fails too" }})
}

fn check_read_fault(bytes: &[u8], f: &ReadFault) -> Result<(), String> {
    let id = 0xF000 + f.offset as u64;
    let kind = KINDS[f.kind];
    let res = catch_unwind(AssertUnwindSafe(|| {
        if f.buffered {
            let mut inner = Scripted::new(bytes, Schedule::fixed(f.chunk)).with_fault(f.offset, kind, id);
            inner.one_shot = f.one_shot;
            Beatmap::decode(BufReader::with_capacity(8, inner))
        } else {
            let mut r = Scripted::new(bytes, Schedule::fixed(f.chunk)).with_fault(f.offset, kind, id);
            r.one_shot = f.one_shot;
            Beatmap::decode(&mut r)
        }
    }));
    match res {
        Err(p) => Err(format!("decode panicked on a reader error: {}", panic_message(&p))),
        Ok(Ok(_)) => Err(format!("the reader failed with {} after {} of {} bytes but decode returned a (partially filled) map", kind_name(kind), f.offset, bytes.len())),
        Ok(Err(e)) => {
            if e.kind() != kind {
                return Err(format!("the reader failed with {} but decode returned an error of kind {:?}", kind_name(kind), e.kind()));
            }
            if marker_of(&e) != Some(id) {
                return Err(format!("decode returned an error of the right kind but not the reader's own error (payload {:?})", e.get_ref().map(|r| r.to_string())));
            }
            Ok(())
        }
    }
}

fn check_interrupted_reads(bytes: &[u8], reference: &Beatmap, t: &mut Tape) -> Result<(), String> {
    let n = 1 + t.below(12);
    let interrupts: Vec<u64> = (0..n).map(|_| 1 + t.below(80) as u64).collect();
    let chunk = 1 + t.below(40);
    let burst = if t.chance(25) { Some((1 + t.below(400) as u64, *t.pick(&[2u64, 40, 1100, 3000]))) } else { None };
    let sched = Schedule { chunks: vec![chunk], interrupts: interrupts.clone(), burst };
    let buffered = t.chance(40);
    let res = catch_unwind(AssertUnwindSafe(|| {
        if buffered {
            Beatmap::decode(BufReader::with_capacity(1 + chunk / 2, Scripted::new(bytes, sched.clone())))
        } else {
            Beatmap::decode(&mut Scripted::new(bytes, sched.clone()))
        }
    }));
    match res {
        Err(p) => Err(format!("decode panicked under Interrupted: {}", panic_message(&p))),
        Ok(Err(e)) => Err(format!("transient Interrupted at calls {:?} / burst {:?} surfaced as Err({e})", interrupts, burst)),
        Ok(Ok(m)) => match full_diff(reference, &m) {
            Some(d) => Err(format!("Interrupted at calls {:?} / burst {:?} (chunk {chunk}, buffered {buffered}) changed the result: {d}", interrupts, burst)),
            None => Ok(()),
        },
    }
}

#[derive(Clone, Debug)]
pub enum WFault {
    Error(usize, usize),
    Zero(usize),
    Short(Vec<usize>, Vec<u64>),
    Flush(usize),
}

fn wfault_json(name: &str, w: &WFault) -> Value {
    match w {
        WFault::Error(off, k) => json!({"side": "write", "file": name, "fault": "write returns Err", "offset": off, "error_kind": kind_name(KINDS[*k])}),
        WFault::Zero(off) => json!({"side": "write", "file": name, "fault": "write returns Ok(0)", "offset": off}),
        WFault::Short(s, i) => json!({"side": "write", "file": name, "fault": "short writes / Interrupted only", "accept_at_most": s, "interrupted_calls": i}),
        WFault::Flush(k) => json!({"side": "write", "file": name, "fault": "flush returns Err", "error_kind": kind_name(KINDS[*k])}),
    }
}

fn check_write_fault(map: &Beatmap, clean: &[u8], w: &WFault) -> Result<(), String> {
    let mut m = map.clone();
    match w {
        WFault::Error(off, k) => {
            let id = 0xE000 + *off as u64;
            let mut wr = ScriptedWriter::new(WriteFault::ErrorAt(*off, KINDS[*k], id), vec![], vec![]);
            match catch_unwind(AssertUnwindSafe(|| m.encode(&mut wr))) {
                Err(p) => Err(format!("encode panicked on a writer error: {}", panic_message(&p))),
                Ok(Ok(())) => Err(format!("the writer failed after {off} of {} bytes but encode returned Ok", clean.len())),
                Ok(Err(e)) => {
                    if e.kind() != KINDS[*k] || marker_of(&e) != Some(id) {
                        return Err(format!("encode returned {:?} ({e}) instead of the writer's own {} error", e.kind(), kind_name(KINDS[*k])));
                    }
                    if wr.out[..] != clean[..wr.out.len().min(clean.len())] {
                        return Err("bytes written before the fault differ from the fault-free stream".into());
                    }
                    Ok(())
                }
            }
        }
        WFault::Zero(off) => {
            let mut wr = ScriptedWriter::new(WriteFault::ZeroAt(*off), vec![], vec![]);
            match catch_unwind(AssertUnwindSafe(|| m.encode(&mut wr))) {
                Err(p) => Err(format!("encode panicked when the writer stopped accepting data: {}", panic_message(&p))),
                Ok(Ok(())) => Err(format!("the writer stopped accepting data after {off} of {} bytes but encode returned Ok", clean.len())),
                Ok(Err(e)) => {
                    if e.kind() != ErrorKind::WriteZero {
                        return Err(format!("expected a WriteZero error, got {:?}", e.kind()));
                    }
                    Ok(())
                }
            }
        }
        WFault::Short(s, i) => {
            let mut wr = ScriptedWriter::new(WriteFault::None, s.clone(), i.clone());
            match catch_unwind(AssertUnwindSafe(|| m.encode(&mut wr))) {
                Err(p) => Err(format!("encode panicked under short writes: {}", panic_message(&p))),
                Ok(Err(e)) => Err(format!("short writes / Interrupted surfaced as Err({e})")),
                Ok(Ok(())) => {
                    if wr.out != clean {
                        return Err(format!("byte stream under short writes / Interrupted differs from the fault-free one ({} vs {} bytes)", wr.out.len(), clean.len()));
                    }
                    if wr.flushed == 0 {
                        return Err("encode did not flush the writer".into());
                    }
                    Ok(())
                }
            }
        }
        WFault::Flush(k) => {
            let id = 0xD000;
            let mut wr = ScriptedWriter::new(WriteFault::FlushError(KINDS[*k], id), vec![], vec![]);
            match catch_unwind(AssertUnwindSafe(|| m.encode(&mut wr))) {
                Err(p) => Err(format!("encode panicked on a flush error: {}", panic_message(&p))),
                Ok(Ok(())) => Err("the final flush failed but encode returned Ok".into()),
                Ok(Err(e)) => {
                    if e.kind() != KINDS[*k] || marker_of(&e) != Some(id) {
                        return Err(format!("encode returned {:?} instead of the flush error", e.kind()));
                    }
                    Ok(())
                }
            }
        }
    }
}

fn offsets_for(len: usize, exhaustive: bool, samples: usize) -> Vec<usize> {
    if exhaustive || len + 1 <= samples {
        return (0..=len).collect();
    }
    let mut v: Vec<usize> = vec![0, 1, 2, 3, len.saturating_sub(1), len];
    for j in 0..samples {
        v.push(((len as u64 * j as u64) / samples as u64) as usize + (j * 7919) % 13);
    }
    v.retain(|o| *o <= len);
    v.sort_unstable();
    v.dedup();
    v
}

pub fn run(ctx: &mut Ctx) {
    ctx.level = "fault_enumeration";
    ctx.rule = "fault points are enumerated, not sampled, wherever the tier says so. Reader side: (bundled file, encoding, byte offset k, error kind: Other and UnexpectedEof at every offset, the other 17 stable non-transient kinds (PermissionDenied, TimedOut, WouldBlock, InvalidData, InvalidInput, NotFound, BrokenPipe, Connection*, NotConnected, Addr*, AlreadyExists, WriteZero, Unsupported, OutOfMemory) on rotating quarters of the offsets, delivery in {native BufRead, BufReader over Read}); the reader delivers exactly k bytes and then fails - on every later call, or (every other fault point) exactly once, after which it would deliver the rest if asked again. Writer side: (bundled map, output offset, {write returns Err(kind), write returns Ok(0)}), failure of the final flush, and short-write / Interrupted schedules. Plus random Interrupted sequences on reads. Oracle: a non-transient read error makes decode return Err carrying the reader's own error (same kind and payload marker), never a map and never a panic; a write error / Ok(0) / flush error makes encode return Err (same kind and marker; WriteZero for Ok(0)); short writes and Interrupted only -> Ok and a byte stream identical to the fault-free one; Interrupted reads -> the fault-free result. Non-trivial = 0 < k < len (the fault hits in the middle of the stream); distinct by construction (file, encoding, offset, kind, side).".into();
    ctx.assumptions.push("only faults expressible through io::Read / BufRead / Write results are injected".into());
    crate::props::replay_regress_generic(ctx, replay);
    let quick = ctx.tier == Tier::Quick;

    // ---- reader faults ----
    let mut files: Vec<(String, Vec<Vec<u8>>)> = bundled().iter().map(|b| (b.name.clone(), ENCS.iter().map(|e| encode_text(&b.text, *e)).collect())).collect();
    // a generated file whose lines contain characters with a 0x0A / 0x0D byte inside a UTF-16 unit (U+010A, U+4E0A,
    // U+0A15, U+0D00, ...): in UTF-16 the reader meets line-feed look-alikes in the middle of lines, so a fault can
    // fall between such a byte and the real end of the line
    let special = "osu file format v14\n\n[General]\nAudioFilename: a\u{10a}bcdefgh.mp3\nMode: 1\n\n[Metadata]\nTitle:a\u{10a}bcdefgh\nTitleUnicode:\u{4e0a}\u{a15}\u{a3e} \u{100}\u{d00}\u{a15} tail\nArtist:x\u{200a}y\u{300a}z\u{ff0a}w\nCreator:me\nVersion:\u{10a}\n\n[Difficulty]\nCircleSize:4\n\n[Events]\n0,0,\"b\u{10a}g.jpg\",0,0\n\n[TimingPoints]\n0,500,4,1,0,100,1,0\n\n[HitObjects]\n100,100,1000,1,0,0:0:0:0:\u{10a}.wav\n200,100,2000,2,0,L|300:100,1,100\n";
    files.push(("generated: characters with 0x0A / 0x0D bytes inside UTF-16 units".to_string(), ENCS.iter().map(|e| encode_text(special, *e)).collect()));
    let mut plan: Vec<ReadFault> = vec![];
    for (fi, (_, encs)) in files.iter().enumerate() {
        for (ei, bytes) in encs.iter().enumerate() {
            let small = bundled().get(fi).map_or(true, |b| b.bytes.len() <= 4096);
            // every offset of the files <= 4 KiB in all four encodings; sampled offsets (128 quick / 2048 thorough) of the larger ones
            let exhaustive = small;
            let offs = offsets_for(bytes.len(), exhaustive, if quick { 128 } else { 2048 });
            for (oi, off) in offs.iter().enumerate() {
                for k in 0..KINDS.len() {
                    // every kind on a rotating subset of offsets, kind Other / UnexpectedEof everywhere
                    if k >= 2 && (oi + k) % 4 != 0 {
                        continue;
                    }
                    plan.push(ReadFault { file: fi, enc: ei, offset: *off, kind: k, buffered: (oi + k) % 3 == 0, chunk: 1 + (oi * 7 + k) % 23, one_shot: (oi + k) % 2 == 0 });
                }
            }
        }
    }
    let n = plan.len() as u64;
    ctx.enumerate("reader fault points (file x encoding x offset x kind x delivery)", n, |i, st| {
        let f = &plan[i as usize];
        let bytes = &files[f.file].1[f.enc];
        st.eval();
        if f.offset > 0 && f.offset < bytes.len() {
            st.nontrivial_distinct();
        }
        if i % 20_011 == 17 {
            st.sample(|| read_fault_json(f, &files));
        }
        check_read_fault(bytes, f).map_err(|m| {
            let mut v = read_fault_json(f, &files);
            v["message"] = json!(m);
            Fail::json(m, &v)
        })
    });

    // ---- Interrupted bursts at every call: a long run of transient results is still transparent ----
    {
        let targets: Vec<usize> = {
            let mut v: Vec<usize> = (0..files.len()).filter(|i| files[*i].1[0].len() <= 700).take(3).collect();
            v.push(files.len() - 1); // the generated file with 0x0A / 0x0D bytes inside UTF-16 units
            v
        };
        let mut plan: Vec<(usize, usize, u64, u64, usize)> = vec![];
        for &fi in &targets {
            for ei in 0..4 {
                let len = files[fi].1[ei].len() as u64;
                for chunk in [1usize, 2] {
                    let calls = len / chunk as u64 + 8;
                    let step = if quick { 1 + calls / 400 } else { 1 };
                    let mut c = 1;
                    while c <= calls {
                        for n in [1u64, 1100] {
                            plan.push((fi, ei, c, n, chunk));
                        }
                        c += step;
                    }
                }
            }
        }
        let n = plan.len() as u64;
        ctx.enumerate("Interrupted bursts (file x encoding x first call x length {1, 1100} x chunk {1, 2})", n, |i, st| {
            let (fi, ei, c, len, chunk) = plan[i as usize];
            let bytes = &files[fi].1[ei];
            st.eval();
            st.nontrivial_distinct();
            let reference = rosu_map::from_bytes::<Beatmap>(bytes).map_err(|e| Fail::new(format!("from_bytes error {e}"), "osu", bytes.clone()))?;
            let sched = Schedule { chunks: vec![chunk], interrupts: vec![], burst: Some((c, len)) };
            let res = catch_unwind(AssertUnwindSafe(|| Beatmap::decode(&mut Scripted::new(bytes, sched.clone()))));
            let what = || json!({"file": files[fi].0, "encoding": ENCS[ei].name(), "burst_first_call": c, "burst_len": len, "chunk": chunk});
            match res {
                Err(p) => Err(Fail::json(format!("decode panicked under an Interrupted burst: {}", panic_message(&p)), &what())),
                Ok(Err(e)) => Err(Fail::json(format!("a burst of {len} Interrupted results from call {c} on surfaced as Err({e}) ({:?})", e.kind()), &what())),
                Ok(Ok(m)) => match full_diff(&reference, &m) {
                    Some(d) => Err(Fail::json(format!("a burst of {len} Interrupted results from call {c} on changed the result: {d}"), &what())),
                    None => Ok(()),
                },
            }
        });
    }

    // ---- writer faults ----
    let maps: Vec<(String, Beatmap, Vec<u8>)> = bundled()
        .iter()
        .map(|b| {
            let m: Beatmap = rosu_map::from_bytes(&b.bytes).unwrap();
            let mut out = Vec::new();
            m.clone().encode(&mut out).unwrap();
            (b.name.clone(), m, out)
        })
        .collect();
    // maps that make the encoder take every optional branch (flags, ids, unicode metadata, bookmarks,
    // background, breaks, colours, all object kinds), in the four modes
    let mut maps = maps;
    for mode in 0..4 {
        let text = format!("osu file format v14\n\n[General]\nAudioFilename: a.mp3\nAudioLeadIn: 5\nPreviewTime: 10\nCountdown: 2\nSampleSet: Soft\nStackLeniency: 0.5\nMode: {mode}\nLetterboxInBreaks: 1\nSpecialStyle: 1\nWidescreenStoryboard: 1\nEpilepsyWarning: 1\nCountdownOffset: 3\nSamplesMatchPlaybackRate: 1\n\n[Editor]\nBookmarks: 1,2,3\nDistanceSpacing: 1.5\nBeatDivisor: 8\nGridSize: 4\nTimelineZoom: 2\n\n[Metadata]\nTitle:t\nTitleUnicode:\u{4e0a}\nArtist:a\nArtistUnicode:\u{3042}\nCreator:c\nVersion:v\nSource:s\nTags:x y\nBeatmapID:7\nBeatmapSetID:9\n\n[Difficulty]\nHPDrainRate:3\nCircleSize:4\nOverallDifficulty:5\nApproachRate:6\nSliderMultiplier:1.8\nSliderTickRate:2\n\n[Events]\n0,0,\"bg.jpg\",0,0\n2,100,900\n\n[TimingPoints]\n0,500,4,2,1,60,1,0\n1000,-50,4,3,2,40,0,1\n\n[Colours]\nCombo1 : 1,2,3\nSliderBorder : 4,5,6\n\n[HitObjects]\n100,100,1000,5,2,1:2:0:30:f.wav\n100,100,2000,2,4,B|200:200|250:100|B|300:300,2,200,2|4|8,1:0|2:1|3:2,1:2:0:0:\n256,192,4000,12,8,5000,0:0:0:0:\n300,192,6000,128,0,7000:1:2:3:40:\n");
        let m: Beatmap = rosu_map::from_str(&text).unwrap();
        let mut out = Vec::new();
        m.clone().encode(&mut out).unwrap();
        maps.push((format!("generated map with every optional line (mode {mode})"), m.clone(), out));
        if mode == 0 || mode == 3 {
            // the same map changed through its public fields into shapes no file produces: sliders with fewer
            // node-sample lists than nodes, objects without samples (the encoder's fallback branches)
            let mut a = m.clone();
            for h in a.hit_objects.iter_mut() {
                if let HitObjectKind::Slider(sl) = &mut h.kind {
                    sl.node_samples.truncate(1);
                }
            }
            let mut out = Vec::new();
            a.clone().encode(&mut out).unwrap();
            maps.push((format!("generated map, sliders with a single node-sample list (mode {mode})"), a, out));
            let mut b = m.clone();
            for h in b.hit_objects.iter_mut() {
                h.samples.clear();
                if let HitObjectKind::Slider(sl) = &mut h.kind {
                    sl.node_samples.clear();
                }
            }
            let mut out = Vec::new();
            b.clone().encode(&mut out).unwrap();
            maps.push((format!("generated map, objects without samples (mode {mode})"), b, out));
        }
    }
    let mut wplan: Vec<(usize, WFault)> = vec![];
    for (mi, (_, _, clean)) in maps.iter().enumerate() {
        let small = clean.len() <= 4096;
        let offs = offsets_for(clean.len().saturating_sub(1), small, if quick { 96 } else { 2048 });
        for (oi, off) in offs.iter().enumerate() {
            wplan.push((mi, WFault::Error(*off, oi % KINDS.len())));
            wplan.push((mi, WFault::Zero(*off)));
        }
        for k in 0..KINDS.len() {
            wplan.push((mi, WFault::Flush(k)));
        }
        for s in 1..=7usize {
            wplan.push((mi, WFault::Short(vec![s], vec![])));
        }
        wplan.push((mi, WFault::Short(vec![1, 0, 3], vec![1, 2, 3, 10, 11])));
        wplan.push((mi, WFault::Short(vec![], vec![1, 4, 5, 6, 7, 100])));
    }
    let wn = wplan.len() as u64;
    ctx.enumerate("writer fault points (map x offset x {Err, Ok(0)}, flush failure, short-write schedules)", wn, |i, st| {
        let (mi, w) = &wplan[i as usize];
        let (name, map, clean) = &maps[*mi];
        st.eval();
        match w {
            WFault::Error(off, _) | WFault::Zero(off) if *off > 0 => st.nontrivial_distinct(),
            WFault::Short(..) | WFault::Flush(_) => st.nontrivial_distinct(),
            _ => {}
        }
        if i % 9_973 == 21 {
            st.sample(|| wfault_json(name, w));
        }
        check_write_fault(map, clean, w).map_err(|m| {
            let mut v = wfault_json(name, w);
            v["message"] = json!(m);
            Fail::json(m, &v)
        })
    });

    // ---- random Interrupted sequences on reads ----
    let refs: Vec<Vec<Beatmap>> = files.iter().map(|(_, encs)| encs.iter().map(|b| rosu_map::from_bytes::<Beatmap>(b).unwrap()).collect()).collect();
    let cases = ctx.tier.pick(60_000u64, 600_000u64);
    ctx.pbt("c09-interrupted", cases, 64, |t, st| {
        // small files mostly
        let small: Vec<usize> = (0..files.len()).filter(|i| bundled().get(*i).map_or(true, |b| b.bytes.len() <= 8192)).collect();
        let fi = if t.chance(5) { t.below(files.len()) } else { small[t.below(small.len())] };
        let ei = t.below(4);
        st.eval();
        st.label("random Interrupted schedule");
        check_interrupted_reads(&files[fi].1[ei], &refs[fi][ei], t).map_err(|m| {
            let hex: String = t.all_bytes().iter().map(|b| format!("{b:02x}")).collect();
            Fail::json(m.clone(), &json!({"side": "read", "file": files[fi].0, "encoding": ENCS[ei].name(), "message": m, "replay_tape_hex": hex}))
        })
    });
}

pub fn replay(_ctx: &mut Ctx, ext: &str, bytes: &[u8]) -> Result<Option<String>, Fail> {
    // a plain file: every offset x kind on the read side, every offset on the write side
    let data: Vec<u8> = if ext == "json" {
        let v: Value = serde_json::from_slice(bytes).map_err(|e| Fail::new(format!("bad JSON {e}"), "json", bytes.to_vec()))?;
        if let (Some(c), Some(len)) = (v["burst_first_call"].as_u64(), v["burst_len"].as_u64()) {
            // an Interrupted burst on a bundled file (the generated file is not replayable by name)
            let name = v["file"].as_str().unwrap_or("");
            if let Some(b) = bundled().iter().find(|b| b.name == name) {
                let enc = ENCS.iter().copied().find(|e| Some(e.name()) == v["encoding"].as_str()).unwrap_or(ENCS[0]);
                let data = encode_text(&b.text, enc);
                let reference = rosu_map::from_bytes::<Beatmap>(&data).map_err(|e| Fail::new(format!("from_bytes error {e}"), "osu", data.clone()))?;
                let sched = Schedule { chunks: vec![v["chunk"].as_u64().unwrap_or(1) as usize], interrupts: vec![], burst: Some((c, len)) };
                return match Beatmap::decode(&mut Scripted::new(&data, sched)) {
                    Err(e) => Err(Fail::new(format!("a burst of {len} Interrupted results from call {c} on surfaced as Err({e})"), "json", bytes.to_vec())),
                    Ok(m) => match full_diff(&reference, &m) {
                        Some(d) => Err(Fail::new(format!("the burst changed the result: {d}"), "json", bytes.to_vec())),
                        None => Ok(None),
                    },
                };
            }
        }
        let name = v["file"].as_str().unwrap_or("");
        let Some(b) = bundled().iter().find(|b| b.name == name) else {
            return Err(Fail::new("unknown bundled file", "json", bytes.to_vec()));
        };
        let enc = ENCS.iter().copied().find(|e| Some(e.name()) == v["encoding"].as_str()).unwrap_or(ENCS[0]);
        encode_text(&b.text, enc)
    } else {
        bytes.to_vec()
    };
    let offs = offsets_for(data.len(), data.len() <= 8192, 512);
    for off in offs {
        for k in 0..KINDS.len() {
            for buffered in [false, true] {
                for one_shot in [false, true] {
                    let f = ReadFault { file: 0, enc: 0, offset: off, kind: k, buffered, chunk: 1 + (off % 17), one_shot };
                    check_read_fault(&data, &f).map_err(|m| Fail::new(format!("read fault at offset {off} kind {} (one-shot {one_shot}): {m}", kind_name(KINDS[k])), "osu", data.clone()))?;
                }
            }
        }
    }
    let map: Beatmap = rosu_map::from_bytes(&data).map_err(|e| Fail::new(format!("decode error {e}"), "osu", data.clone()))?;
    let mut clean = Vec::new();
    map.clone().encode(&mut clean).map_err(|e| Fail::new(format!("encode error {e}"), "osu", data.clone()))?;
    for off in offsets_for(clean.len().saturating_sub(1), clean.len() <= 8192, 512) {
        for w in [WFault::Error(off, off % KINDS.len()), WFault::Zero(off)] {
            check_write_fault(&map, &clean, &w).map_err(|m| Fail::new(format!("write fault {w:?}: {m}"), "osu", data.clone()))?;
        }
    }
    for w in [WFault::Flush(0), WFault::Short(vec![1], vec![1, 2]), WFault::Short(vec![3, 0, 1], vec![5])] {
        check_write_fault(&map, &clean, &w).map_err(|m| Fail::new(format!("write fault {w:?}: {m}"), "osu", data.clone()))?;
    }
    Ok(None)
}
