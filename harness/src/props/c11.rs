//! C11 - key/value, event and colour records decode per the format rules.

use crate::engine::*;
use crate::refmodel::kv::{Expected, Sec};
use rosu_map::section::colors::Colors;
use rosu_map::section::difficulty::Difficulty;
use rosu_map::section::editor::Editor;
use rosu_map::section::events::Events;
use rosu_map::section::general::General;
use rosu_map::section::metadata::Metadata;
use rosu_map::Beatmap;
use serde_json::json;

#[derive(Clone, Debug)]
pub struct Case {
    /// format version of the header line (the record rules do not depend on it)
    pub ver: i32,
    /// (section, line) in file order; the section header is emitted whenever the section changes
    pub lines: Vec<(Sec, String)>,
}

impl Case {
    pub fn text(&self) -> String {
        let mut s = format!("osu file format v{}\n", self.ver);
        let mut cur: Option<Sec> = None;
        for (sec, l) in &self.lines {
            if cur != Some(*sec) {
                s.push('\n');
                s.push_str(sec.header());
                s.push('\n');
                cur = Some(*sec);
            }
            s.push_str(l);
            s.push('\n');
        }
        s
    }
}

const GENERAL_KEYS: &[&str] = &[
    "AudioFilename", "AudioLeadIn", "PreviewTime", "SampleSet", "SampleVolume", "StackLeniency", "Mode", "LetterboxInBreaks",
    "SpecialStyle", "WidescreenStoryboard", "EpilepsyWarning", "SamplesMatchPlaybackRate", "Countdown", "CountdownOffset",
];
const EDITOR_KEYS: &[&str] = &["Bookmarks", "DistanceSpacing", "BeatDivisor", "GridSize", "TimelineZoom"];
const METADATA_KEYS: &[&str] = &["Title", "TitleUnicode", "Artist", "ArtistUnicode", "Creator", "Version", "Source", "Tags", "BeatmapID", "BeatmapSetID"];
const DIFFICULTY_KEYS: &[&str] = &["HPDrainRate", "CircleSize", "OverallDifficulty", "ApproachRate", "SliderMultiplier", "SliderTickRate"];

pub const CLASSES: &[&str] = &["valid", "boundary", "overflow", "nan-inf", "empty", "padded", "comment-suffixed", "extra-colons"];

/// value token of a class for a key
fn value_for(t: &mut Tape, key: &str, class: usize) -> String {
    let literal: Option<&[&str]> = match key {
        "SampleSet" => Some(&["0", "None", "1", "Normal", "2", "Soft", "3", "Drum"]),
        "Mode" => Some(&["0", "1", "2", "3"]),
        "Countdown" => Some(&["0", "None", "1", "Normal", "2", "Half speed", "3", "Double speed"]),
        _ => None,
    };
    let textual = matches!(key, "AudioFilename" | "Title" | "TitleUnicode" | "Artist" | "ArtistUnicode" | "Creator" | "Version" | "Source" | "Tags");
    let flag = matches!(key, "LetterboxInBreaks" | "SpecialStyle" | "WidescreenStoryboard" | "EpilepsyWarning" | "SamplesMatchPlaybackRate");
    let valid = |t: &mut Tape| -> String {
        if let Some(l) = literal {
            return (*t.pick(l)).to_string();
        }
        if textual {
            return (*t.pick(&["abc", "a b c", "d\\e.mp3", "\u{4e0a}\u{3042}", "x y.ogg", "q\"q", "a,b", "[General]", "osu file format v9", "caf\u{e9}"])).to_string();
        }
        if flag {
            return (*t.pick(&["1", "0", "1", "0", "2", "-1"])).to_string();
        }
        if key == "Bookmarks" {
            return (*t.pick(&["1,2,3", "5", "100,200", "-7,0,7", "1000"])).to_string();
        }
        match t.below(6) {
            5 => crate::gen::doc::odd_number(t).to_string(),
            0 => format!("{}", t.int(0, 12)),
            1 => format!("{}.{}", t.int(0, 12), t.int(0, 99)),
            2 => format!("{}", t.int(-100, 100000)),
            3 => (*t.pick(&["1e1", "+5", "7.", ".5", "1.5e0", "-0"])).to_string(),
            _ => format!("{}", t.int(0, 300) as f64 / 8.0),
        }
    };
    match class {
        0 => valid(t),
        1 => {
            // boundary
            if flag {
                (*t.pick(&["1", "0", "2", "-1", "01", "+1", "10"])).to_string()
            } else if key == "SliderMultiplier" {
                (*t.pick(&["0.4", "0.39", "3.6", "3.61", "0.399999", "3.6000001", "-1", "100"])).to_string()
            } else if key == "SliderTickRate" {
                (*t.pick(&["0.5", "0.49", "8", "8.5", "0", "-3", "8.0000001"])).to_string()
            } else if key == "Bookmarks" {
                (*t.pick(&["2147483647", "-2147483648,1", "1, 2,x,+4", "1,,2", "2147483648,7", ","])).to_string()
            } else if literal.is_some() {
                (*t.pick(&["4", "03", "none", "soft", "Half  speed", "-1", "00", "Osu", "normal"])).to_string()
            } else {
                (*t.pick(&["2147483647", "-2147483647", "2147483647.0", "-2147483647.0", "2147483520", "2147483648.0", "2147483700"])).to_string()
            }
        }
        2 => (*t.pick(&["2147483648", "-2147483648", "3000000000", "-3e9", "1e10", "2147483904", "99999999999999999999", "1e400"])).to_string(),
        3 => (*t.pick(&["NaN", "nan", "inf", "-inf", "infinity", "+inf", "-NaN"])).to_string(),
        4 => String::new(),
        5 => format!("{}{}{}", t.pick(&["  ", " ", "\u{3000}", "\u{a0} ", "\t"]), valid(t), t.pick(&["  ", " ", "\u{3000}", "\u{2009}", "\t"])),
        6 => format!("{} // {}", valid(t), t.pick(&["comment", "1", "9.9", ": 5"])),
        _ => format!("{}:{}", valid(t), t.pick(&["x", " 7", "", ":", "Zero: x"])),
    }
}

fn kv_line(t: &mut Tape, key: &str, class: usize) -> String {
    let v = value_for(t, key, class);
    let pre = if t.chance(4) { " " } else { "" };
    let mid = if t.chance(8) { " " } else { "" };
    let sp = match t.below(12) {
        0..=2 => "",
        3..=7 => " ",
        8 => "  ",
        9 => "\u{3000}",
        10 => "\u{a0}",
        _ => "\u{b}",
    };
    // characters that look like the separator but are not: such a line has no (ASCII) colon of its own
    if t.chance(3) {
        let fake = *t.pick(&["\u{ff1a}", "\u{fe55}", "\u{2236}", "\u{a789}", "=", " ", "\u{ff1a} "]);
        return format!("{pre}{key}{mid}{fake}{sp}{v}");
    }
    format!("{pre}{key}{mid}:{sp}{v}")
}

const FILES: &[&str] = &[
    "\"bg.jpg\"", "bg.png", "\"v.mp4\"", "\"V.AVI\"", "\"a\\\\b.jpg\"", "\"\"", "ab", "\"\u{e9}.jpg\"", "\"x.m4v \"", "\"clip.MoV\"", "\"pic.flv.png\"",
    "\"sub\\dir\\bg.jpg\"", "", "\"a b.jpeg\"", "x.wmv", "\"mpg\"",
    // names whose length changes under case mapping (Kelvin sign 3 -> 1 byte, dotted capital I 2 -> 3, sharp S)
    "\"\u{212a}\u{212a}.avi\"", "\"\u{130}\u{130}.AVI\"", "\"\u{1e9e}.Mp4\"", "\"\u{212a}.png\"", "\u{212a}\u{212a}\u{212a}",
    // control characters where an extension letter or digit would be (0x14 | 0x20 == '4', 0x01, 0x7f)
    "\"clip.mp\u{14}\"", "\"x.m\u{14}v\"", "\"a.\u{1}vi\"", "\"b.fl\u{16}\"", "\"c.mp4\u{7f}\"", "\"d.MP\u{14}\"",
    // a slash directly next to a backslash (the order of "collapse doubled separators" and "standardise" matters)
    "\"sb/\\bg.png\"", "\"a\\/b.jpg\"", "\"a\\\\/b\"", "\"x/\\\\y.png\"", "\"/\\\"",
    // names that are non-empty but blank, or padded
    "\" \"", " ", "\t", "\"\u{3000}\"", "\" bg.jpg\"", " \"bg2.jpg\" ", "\"\t\"",
];

fn event_line(t: &mut Tape) -> String {
    let ty = *t.pick(&["0", "Background", "1", "Video", "2", "Break", "3", "4", "Sprite", "5", "6", "Animation", "7", " 0", "Colour", "Sample", "background", "-1", ""]);
    let num = |t: &mut Tape| -> String {
        match t.below(8) {
            0 => format!("{}", t.int(-1000, 100000)),
            1 => format!("{}.5", t.int(0, 100000)),
            2 => (*t.pick(&["2147483647", "2147483648", "-2147483647", "NaN", "", "x", " 12 ", "1e3", "inf"])).to_string(),
            _ => format!("{}", t.int(0, 60000)),
        }
    };
    let line = match ty {
        "2" | "Break" => match t.below(6) {
            0 => format!("{ty},{}", num(t)),
            _ => format!("{ty},{},{}", num(t), num(t)),
        },
        "4" | "Sprite" => {
            if t.chance(70) {
                format!("{ty},Foreground,Centre,{},320,240", t.pick(FILES))
            } else {
                format!("{ty},Foreground,Centre")
            }
        }
        _ => {
            if t.chance(85) {
                format!("{ty},0,{},0,0", t.pick(FILES))
            } else if t.chance(50) {
                format!("{ty},0")
            } else {
                format!("{ty},0,{}", t.pick(FILES))
            }
        }
    };
    if t.chance(8) {
        format!("{line} // c")
    } else {
        line
    }
}

fn colour_line(t: &mut Tape) -> String {
    let key = *t.pick(&["Combo1", "Combo2", "Combo", "ComboX", "SliderBorder", "SliderTrackOverride", "", "combo1", " Spaced Name ", "Combo 3", "SliderBorder", "_SliderBorder", "_Combo1", "-x", "#c", "$c"]);
    let v = *t.pick(&[
        "1,2,3", "255,255,255,0", "1,2", "1,2,3,4,5", "256,0,0", "-1,0,0", " 7 , 8 , 9 ", "1,2,3,x", "a,b,c", "+1,2,3", "", "1,2,3,", "0,0,0", "12,34,56,78",
        "1,2,3,4,", "1.5,2,3", "255,254,253",
    ]);
    let line = format!("{key}:{v}");
    if t.chance(8) {
        format!("{line} // c")
    } else {
        line
    }
}

pub fn gen_case(t: &mut Tape) -> Case {
    let mut lines: Vec<(Sec, String)> = vec![];
    let n = t.below(36);
    let mut sec = Sec::General;
    for _ in 0..n {
        // mostly stay in the section, sometimes move on / jump back (sections may repeat)
        if t.chance(25) {
            sec = *t.pick(&[Sec::General, Sec::Editor, Sec::Metadata, Sec::Difficulty, Sec::Events, Sec::Colours]);
        }
        let class = t.weighted(&[6, 3, 2, 2, 1, 2, 2, 2]);
        let line = match sec {
            Sec::General => {
                if t.chance(8) {
                    format!("{}: {}", t.pick(&["Unknown", "mode", "Audio Filename", "", "Mode2"]), value_for(t, "x", 0))
                } else {
                    let k = *t.pick(GENERAL_KEYS);
                    kv_line(t, k, class)
                }
            }
            Sec::Editor => {
                if t.chance(8) {
                    format!("Zoom: {}", value_for(t, "x", 0))
                } else {
                    let k = *t.pick(EDITOR_KEYS);
                    kv_line(t, k, class)
                }
            }
            Sec::Metadata => {
                if t.chance(8) {
                    format!("Foo:{}", value_for(t, "Title", 0))
                } else {
                    let k = *t.pick(METADATA_KEYS);
                    kv_line(t, k, class)
                }
            }
            Sec::Difficulty => {
                if t.chance(8) {
                    format!("Nope:{}", value_for(t, "x", 0))
                } else {
                    let k = *t.pick(DIFFICULTY_KEYS);
                    kv_line(t, k, class)
                }
            }
            Sec::Events => event_line(t),
            Sec::Colours => colour_line(t),
        };
        // a generated line must not be blank, a comment or a header (framing is C05's business)
        let tl = line.trim_end();
        if tl.is_empty() || tl.trim_start().starts_with("//") || (tl.starts_with('[') && tl.ends_with(']')) {
            continue;
        }
        lines.push((sec, line));
    }
    let ver = *t.pick(&[14, 14, 14, 3, 5, 7, 8, 9, 12, 128, 6, 4, 10, 13]);
    Case { ver, lines }
}

pub struct Outcome {
    pub recognised: u32,
    pub rejected: usize,
}

pub fn evaluate(case: &Case) -> Result<Outcome, String> {
    let text = case.text();
    let mut exp = Expected::new();
    for (sec, l) in &case.lines {
        exp.line(*sec, l.trim_end());
    }
    let err = |e: std::io::Error| format!("decode error {e}");
    let g: General = rosu_map::from_str(&text).map_err(err)?;
    let e: Editor = rosu_map::from_str(&text).map_err(err)?;
    let m: Metadata = rosu_map::from_str(&text).map_err(err)?;
    let d: Difficulty = rosu_map::from_str(&text).map_err(err)?;
    let ev: Events = rosu_map::from_str(&text).map_err(err)?;
    let co: Colors = rosu_map::from_str(&text).map_err(err)?;
    if g != exp.general {
        return Err(format!("General differs from the format rules\n impl  {:?}\n rules {:?}", g, exp.general));
    }
    if e != exp.editor {
        return Err(format!("Editor differs\n impl  {:?}\n rules {:?}", e, exp.editor));
    }
    if m != exp.metadata {
        return Err(format!("Metadata differs\n impl  {:?}\n rules {:?}", m, exp.metadata));
    }
    if d != exp.difficulty {
        return Err(format!("Difficulty differs\n impl  {:?}\n rules {:?}", d, exp.difficulty));
    }
    if ev != exp.events {
        return Err(format!("Events differ\n impl  {:?}\n rules {:?}", ev, exp.events));
    }
    if co != exp.colors {
        return Err(format!("Colours differ\n impl  {:?}\n rules {:?}", co, exp.colors));
    }
    // the same fields of the full decoder
    let b: Beatmap = rosu_map::from_str(&text).map_err(err)?;
    let bg = General {
        audio_file: b.audio_file.clone(),
        audio_lead_in: b.audio_lead_in,
        preview_time: b.preview_time,
        default_sample_bank: b.default_sample_bank,
        default_sample_volume: b.default_sample_volume,
        stack_leniency: b.stack_leniency,
        mode: b.mode,
        letterbox_in_breaks: b.letterbox_in_breaks,
        special_style: b.special_style,
        widescreen_storyboard: b.widescreen_storyboard,
        epilepsy_warning: b.epilepsy_warning,
        samples_match_playback_rate: b.samples_match_playback_rate,
        countdown: b.countdown,
        countdown_offset: b.countdown_offset,
    };
    let be = Editor { bookmarks: b.bookmarks.clone(), distance_spacing: b.distance_spacing, beat_divisor: b.beat_divisor, grid_size: b.grid_size, timeline_zoom: b.timeline_zoom };
    let bm = Metadata {
        title: b.title.clone(),
        title_unicode: b.title_unicode.clone(),
        artist: b.artist.clone(),
        artist_unicode: b.artist_unicode.clone(),
        creator: b.creator.clone(),
        version: b.version.clone(),
        source: b.source.clone(),
        tags: b.tags.clone(),
        beatmap_id: b.beatmap_id,
        beatmap_set_id: b.beatmap_set_id,
    };
    let bd = Difficulty {
        hp_drain_rate: b.hp_drain_rate,
        circle_size: b.circle_size,
        overall_difficulty: b.overall_difficulty,
        approach_rate: b.approach_rate,
        slider_multiplier: b.slider_multiplier,
        slider_tick_rate: b.slider_tick_rate,
    };
    let bev = Events { background_file: b.background_file.clone(), breaks: b.breaks.clone() };
    let bco = Colors { custom_combo_colors: b.custom_combo_colors.clone(), custom_colors: b.custom_colors.clone() };
    if bg != exp.general || be != exp.editor || bm != exp.metadata || bd != exp.difficulty || bev != exp.events || bco != exp.colors {
        return Err("Beatmap fields differ from the format rules although the specialised decoders agree".to_string());
    }
    Ok(Outcome { recognised: exp.recognised, rejected: exp.rejected.iter().filter(|r| **r).count() })
}

/// the full key x value-class matrix, each cell as a one-record file plus a valid neighbour
fn matrix_cases() -> Vec<(String, Case)> {
    let mut out = vec![];
    let tape_bytes: Vec<u8> = (0..64u32).map(|i| (i * 37 % 251) as u8).collect();
    for (sec, keys) in [(Sec::General, GENERAL_KEYS), (Sec::Editor, EDITOR_KEYS), (Sec::Metadata, METADATA_KEYS), (Sec::Difficulty, DIFFICULTY_KEYS)] {
        for key in keys {
            for (ci, cname) in CLASSES.iter().enumerate() {
                for variant in 0..8u8 {
                    let mut bytes = tape_bytes.clone();
                    bytes.rotate_left(variant as usize * 5);
                    bytes[0] = variant.wrapping_mul(31);
                    let mut t = Tape::new(&bytes);
                    let before = kv_line(&mut t, key, 0);
                    let cell = kv_line(&mut t, key, ci);
                    let after_invalid = kv_line(&mut t, key, 3);
                    // valid, then the cell, then an invalid one: "last valid occurrence wins"
                    out.push((format!("{key} x {cname}"), Case { ver: 14, lines: vec![(sec, before), (sec, cell), (sec, after_invalid)] }));
                }
            }
        }
    }
    out
}

pub fn run(ctx: &mut Ctx) {
    ctx.rule = "cases are record lists for General / Editor / Metadata / Difficulty / Events / Colours (sections may repeat and interleave): every recognised key x value class {valid, boundary, overflow, NaN/inf, empty, padded, comment-suffixed, extra colons}, unknown keys, duplicates, background / video (video and image extensions, upper case) / sprite / break interleavings, colour lines with 2..5 components, Combo-prefixed vs named keys. Exhaustive part: the full key x class matrix (8 variants per cell, each as valid-cell-invalid triple). Oracle: an independent table-driven interpretation (refmodel::kv) vs the six specialised decoders and vs the Beatmap fields. Non-trivial = >= 3 recognised records and >= 1 rejected (boundary/invalid) record; distinct by text hash.".into();
    ctx.assumptions.push("limits are evaluated in the field's own number type (an f32 field accepts what compares <= (2^31-1) as f32 = 2^31); bookmark items are parsed without trimming; enum literals are matched as text; a colour's 4th component is ignored unparsed (legacy behaviour, Appendix A.2)".into());
    crate::props::replay_regress_generic(ctx, replay);

    let matrix = matrix_cases();
    let n = matrix.len() as u64;
    let cells: std::collections::BTreeSet<&String> = matrix.iter().map(|m| &m.0).collect();
    ctx.stats.extra.insert("matrix_cells".into(), json!(cells.len()));
    ctx.enumerate("key x value-class matrix (8 variants per cell)", n, |i, st| {
        let (name, case) = &matrix[i as usize];
        st.eval();
        match evaluate(case) {
            Ok(o) => {
                if o.rejected >= 1 {
                    st.nontrivial_distinct();
                }
                if i % 97 == 3 {
                    st.sample(|| json!({"cell": name, "text": case.text()}));
                }
                Ok(())
            }
            Err(m) => Err(Fail::new(format!("[{name}] {m}"), "osu", case.text().into_bytes())),
        }
    });

    let cases = ctx.tier.pick(2_000_000u64, 20_000_000u64);
    ctx.pbt("c11-random", cases, 700, |t, st| {
        let case = gen_case(t);
        st.eval();
        match evaluate(&case) {
            Ok(o) => {
                if o.recognised >= 3 && o.rejected >= 1 {
                    let fresh = st.nontrivial(hash64(&case.text()));
                    if fresh && case.lines.len() <= 10 {
                        st.sample(|| json!(case.text()));
                    }
                }
                st.label(match o.rejected {
                    0 => "no rejected record",
                    1..=3 => "1-3 rejected records",
                    _ => ">3 rejected records",
                });
                Ok(())
            }
            Err(m) => Err(Fail::new(m, "osu", case.text().into_bytes())),
        }
    });
}

fn case_from_text(text: &str) -> Option<Case> {
    let mut sec = None;
    let mut lines = vec![];
    for l in text.lines().skip(1) {
        let tl = l.trim_end();
        if tl.is_empty() {
            continue;
        }
        let s = [Sec::General, Sec::Editor, Sec::Metadata, Sec::Difficulty, Sec::Events, Sec::Colours].into_iter().find(|s| s.header() == tl);
        if let Some(s) = s {
            sec = Some(s);
            continue;
        }
        lines.push((sec?, l.to_string()));
    }
    let ver: i32 = text.lines().next().and_then(|l| l.strip_prefix("osu file format v")).and_then(|v| v.trim().parse().ok()).unwrap_or(14);
    Some(Case { ver, lines })
}

pub fn replay(_ctx: &mut Ctx, ext: &str, bytes: &[u8]) -> Result<Option<String>, Fail> {
    let case = if ext == "tape" {
        gen_case(&mut Tape::new(bytes))
    } else {
        std::str::from_utf8(bytes).ok().and_then(case_from_text).ok_or_else(|| Fail::new("cannot parse a C11 case (expects the layout the check writes)", "osu", bytes.to_vec()))?
    };
    evaluate(&case).map(|_| None).map_err(|m| Fail::new(m, "osu", case.text().into_bytes()))
}

/// one record (any value class) for a section - used by the hostile document generator
pub fn hostile_line(t: &mut Tape, sec: Sec) -> String {
    let class = t.weighted(&[4, 3, 2, 2, 1, 2, 2, 2]);
    match sec {
        Sec::General => {
            let k = *t.pick(GENERAL_KEYS);
            kv_line(t, k, class)
        }
        Sec::Editor => {
            let k = *t.pick(EDITOR_KEYS);
            kv_line(t, k, class)
        }
        Sec::Metadata => {
            let k = *t.pick(METADATA_KEYS);
            kv_line(t, k, class)
        }
        Sec::Difficulty => {
            let k = *t.pick(DIFFICULTY_KEYS);
            kv_line(t, k, class)
        }
        Sec::Events => event_line(t),
        Sec::Colours => colour_line(t),
    }
}

/// Text-level entry of the `grammar` fuzz target: arbitrary text after a version line. The framing model
/// assigns lines to sections; Ok(false) = a line lands outside the six key/value sections (not this
/// property's domain) or the case does not survive re-rendering.
pub fn fuzz_text(text: &str) -> Result<bool, Fail> {
    use crate::refmodel::framing::frame;
    use rosu_map::section::Section;
    let full = format!("osu file format v14\n{text}");
    let fr = frame(&full);
    if fr.version != 14 || fr.trace.is_empty() {
        return Ok(false);
    }
    let mut lines = vec![];
    for (s, l) in &fr.trace {
        let sec = match s {
            Section::General => Sec::General,
            Section::Editor => Sec::Editor,
            Section::Metadata => Sec::Metadata,
            Section::Difficulty => Sec::Difficulty,
            Section::Events => Sec::Events,
            Section::Colors => Sec::Colours,
            _ => return Ok(false),
        };
        lines.push((sec, l.clone()));
    }
    let case = Case { ver: 14, lines };
    let file = case.text();
    if frame(&file).trace != fr.trace {
        return Ok(false);
    }
    evaluate(&case).map(|_| true).map_err(|m| Fail::new(m, "osu", file.into_bytes()))
}
