//! C17 - computed paths follow the exact curves within tolerance.

use crate::engine::*;
use crate::gen::curve::*;
use crate::refmodel::curve_exact::{self as ex, P};
use rosu_map::section::general::GameMode;
use rosu_map::section::hit_objects::{Curve, CurveBuffers, PathControlPoint, PathType, SplineType};
use rosu_map::util::Pos;
use serde_json::{json, Value};

pub const K8: &str = "c17.huge_radius_arc_degenerates_to_chord";
pub const K13: &str = "c17.circumcircle_denominator_dominated_by_rounding";

fn pp(p: Pos) -> P {
    (p.x as f64, p.y as f64)
}

fn case_json(mode: GameMode, pts: &[PathControlPoint]) -> Value {
    json!({"mode": mode_name(mode), "points": points_json(pts)})
}

fn path_of(mode: GameMode, pts: &[PathControlPoint]) -> Vec<Pos> {
    Curve::new(mode, pts, None, &mut CurveBuffers::default()).path().to_vec()
}

/// directed distance from the ordered probe points of `a` to polyline `b`, using a moving
/// window first and a full scan before anything is reported as too far.
fn directed(a: &[P], b: &[P], bound: f64) -> f64 {
    if b.len() < 2 {
        return a.iter().map(|p| ex::poly_dist(*p, b)).fold(0.0, f64::max);
    }
    let nb = b.len() - 1;
    let mut cur = 0usize;
    let mut worst: f64 = 0.0;
    let probe = |p: P, cur: &mut usize| {
        let lo = cur.saturating_sub(8);
        let hi = (*cur + 96).min(nb);
        let mut best = f64::INFINITY;
        let mut arg = *cur;
        for i in lo..hi {
            let d = ex::seg_dist(p, b[i], b[i + 1]);
            if d < best {
                best = d;
                arg = i;
            }
        }
        if best > bound {
            // the match may lie outside the window (loops, long flat stretches)
            for i in 0..nb {
                let d = ex::seg_dist(p, b[i], b[i + 1]);
                if d < best {
                    best = d;
                    arg = i;
                }
            }
        }
        *cur = arg;
        best
    };
    for (i, p) in a.iter().enumerate() {
        worst = worst.max(probe(*p, &mut cur));
        if let Some(q) = a.get(i + 1) {
            let mid = ((p.0 + q.0) / 2.0, (p.1 + q.1) / 2.0);
            let mut c2 = cur;
            worst = worst.max(probe(mid, &mut c2));
        }
    }
    worst
}

struct Geo {
    exact: Vec<P>,
    bound: f64,
    family: &'static str,
}

enum SegVerdict {
    Ok(&'static str),
    /// the failure has the shape of an open known finding (key, what failed)
    Known(&'static str, String),
    Fail(String),
}

fn seg_scale(v: &[P]) -> f64 {
    v.iter().fold(1.0f64, |m, p| m.max(p.0.abs()).max(p.1.abs()))
}

fn polygon_len(v: &[P]) -> f64 {
    v.windows(2).map(|w| ex::dist(w[0], w[1])).sum()
}

fn bezier_geo(v: &[P]) -> Geo {
    let n = ((polygon_len(v) * 2.0) as usize).clamp(400, 6000);
    Geo { exact: ex::bezier_samples(v, n), bound: 0.25 + seg_scale(v) * 2f64.powi(-20) + 2e-3, family: "bezier" }
}

fn k8(shape: Option<&'static str>, msg: String) -> SegVerdict {
    match shape {
        Some(key) => SegVerdict::Known(key, msg),
        None => SegVerdict::Fail(msg),
    }
}

/// check one segment (>= 2 vertices, only the first typed) against the exact curve
fn check_segment(mode: GameMode, kind: SplineType, seg: &[PathControlPoint]) -> SegVerdict {
    let v: Vec<P> = seg.iter().map(|p| pp(p.pos)).collect();
    let path = path_of(mode, seg);
    if path.is_empty() {
        return SegVerdict::Fail("empty path for a segment with >= 2 vertices".into());
    }
    let pathp: Vec<P> = path.iter().map(|p| pp(*p)).collect();
    let scale = seg_scale(&v);
    // K8: exact circumradius >= 1e6 (the f32 value of 1 - 0.1/r has no significant bits left, the f32
    // circumcentre is ill-conditioned) and the path has a handful of vertices
    let mut k8_shape: Option<&'static str> = None;
    let mut fell_back = false;
    let geo = match kind {
        SplineType::Linear => {
            // straight polylines are exact: the path is the control polyline
            let expect: Vec<Pos> = seg.iter().map(|p| p.pos).collect();
            if path != expect {
                return SegVerdict::Fail(format!("linear segment: path {:?} is not the control polyline {:?}", path, expect));
            }
            return SegVerdict::Ok("linear");
        }
        SplineType::BSpline => bezier_geo(&v),
        SplineType::PerfectCurve => {
            if v.len() != 3 {
                bezier_geo(&v)
            } else {
                // differential: what the same points give as a Bezier
                let mut as_bez = seg.to_vec();
                as_bez[0].path_type = Some(PathType::BEZIER);
                let bez_path = path_of(mode, &as_bez);
                let cr = ex::cross(v[0], v[1], v[2]);
                let arc = ex::arc_through(v[0], v[1], v[2]);
                match arc {
                    None => {
                        // exactly collinear: must fall back to the Bezier
                        if path != bez_path {
                            return SegVerdict::Fail("collinear perfect curve does not fall back to the Bezier path".into());
                        }
                        return SegVerdict::Ok("arc:collinear-fallback");
                    }
                    Some(arc) => {
                        if path == bez_path {
                            // a fallback is legitimate only for (nearly) collinear or enormous arcs
                            // "collinear" is decided by the crate on an f32 cross product: with coordinates of
                            // magnitude S the two products carry an absolute rounding error of up to ~2^-23 * |dy*dx|
                            // each (plus the rounding of the differences), so a triple whose exact cross product is
                            // below that error may legitimately count as collinear
                            let prod = ((v[1].1 - v[0].1) * (v[2].0 - v[0].0)).abs() + ((v[1].0 - v[0].0) * (v[2].1 - v[0].1)).abs();
                            let collinear_in_f32 = cr.abs() <= 16.0 * 2f64.powi(-24) * (prod + scale * scale * 2f64.powi(-20)) + 1e-6;
                            if collinear_in_f32 || arc.length() >= 100_000.0 {
                                let g = bezier_geo(&v);
                                let (d1, d2) = (directed(&pathp, &g.exact, g.bound), directed(&g.exact, &pathp, g.bound));
                                if d1.max(d2) > g.bound {
                                    return SegVerdict::Fail(format!("fallback Bezier deviates {} > {}", d1.max(d2), g.bound));
                                }
                                return SegVerdict::Ok("arc:fallback");
                            }
                            // neither: the crate also falls back when its f32 circumcircle denominator cancels to zero
                            // (fix F9). That is only acceptable if the Bezier path is as close to the exact arc as an
                            // arc approximation would have to be - judged below like any other arc
                            fell_back = true;
                        }
                        let r = arc.radius;
                        if r >= 1.0e6 && path.len() <= 8 {
                            k8_shape = Some(K8);
                        }
                        let n = ((arc.length() * 2.0) as usize).clamp(400, 8000);
                        let sampling = r * (arc.sweep.abs() / n as f64).powi(2) / 8.0;
                        let ulp = ex::ulp_f32(r.max(scale));
                        // conditioning of the circumcentre in f32: numerator terms ~ S^2 * L carry a relative
                        // rounding error of 2^-24 each and are divided by 2*cross (thin triangles at large
                        // absolute coordinates are ill-conditioned); factor 8 for the number of terms and operations, times 2
                        // because a centre error d moves the far side of the circle by up to 2d
                        // (each squared length |p|^2 meets the side opposite to p; the denominator's terms are |p.x| x side)
                        let opp = [ex::dist(v[1], v[2]), ex::dist(v[2], v[0]), ex::dist(v[0], v[1])];
                        let norm = |p: P| (p.0 * p.0 + p.1 * p.1).sqrt();
                        let e_num: f64 = (0..3).map(|i| norm(v[i]).powi(2) * opp[i]).sum::<f64>().max(1e-30);
                        let e_den: f64 = (0..3).map(|i| norm(v[i]) * opp[i]).sum();
                        // centre error (first order): numerator error / |2 cross| plus |centre| x relative error of the
                        // denominator, |centre| <= max|p| + r; K = 16 for the number of terms and operations
                        let s_abs = v.iter().map(|p| norm(*p)).fold(0.0f64, f64::max);
                        let delta = 16.0 * 2f64.powi(-24) * (e_num + (s_abs + r) * e_den) / (2.0 * cr.abs());
                        // a centre error d moves a point of the arc (which still passes through the first point) by
                        // d * |u - u_a| <= d * 2 sin(sweep / 2): the full 2d beyond a half circle, little on a flat arc
                        let sweep = arc.sweep.abs();
                        let geo_factor = if sweep >= std::f64::consts::PI { 2.0 } else { 2.0 * (sweep / 2.0).sin() };
                        let mut f32_cond = delta * geo_factor + delta * delta / r.max(1e-9);
                        // K13: the denominator 2*cross itself is dominated by the rounding of its three products
                        // (relative error >= 1/4): the computed centre is noise. The first-order allowance above has no
                        // meaning there (it grows without limit and would accept any path), so such a triple is judged
                        // without it and a failure is the listed finding
                        if 16.0 * 2f64.powi(-24) * e_den / (2.0 * cr.abs()) >= 0.25 && k8_shape.is_none() {
                            k8_shape = Some(K13);
                            f32_cond = 0.0;
                        }
                        let bound = if r < 1.0e4 { 0.4 + 8.0 * ulp } else { 1.0 + 8.0 * ulp } + f32_cond + sampling + 1e-3;
                        Geo { exact: arc.samples(n), bound, family: if r < 1.0e4 { "arc" } else { "arc:r>=1e4" } }
                    }
                }
            }
        }
        SplineType::Catmull => {
            let per = 400;
            let (exact, maxdd) = ex::catmull_samples(&v, per);
            let mut bound = (1.0f64 / 50.0).powi(2) / 8.0 * maxdd + scale * 2f64.powi(-18) + 1e-3;
            // sampling error of the reference polyline
            bound += (1.0f64 / per as f64).powi(2) / 8.0 * maxdd;
            if mode == GameMode::Osu {
                bound += 6.0;
            }
            Geo { exact, bound, family: if mode == GameMode::Osu { "catmull:osu" } else { "catmull" } }
        }
    };
    // start / end
    if path[0] != seg[0].pos && geo.family != "arc" && geo.family != "arc:r>=1e4" {
        return k8(k8_shape, format!("segment does not start at its first control point: {:?} vs {:?}", path[0], seg[0].pos));
    }
    let first_err = ex::dist(pathp[0], v[0]);
    let last_err = ex::dist(*pathp.last().unwrap(), *v.last().unwrap());
    if first_err > geo.bound || last_err > geo.bound {
        return k8(k8_shape, format!(
            "{}: segment must start at its first ({first_err} off) and end at its last control point ({last_err} off), bound {}",
            geo.family, geo.bound
        ));
    }
    let d1 = directed(&pathp, &geo.exact, geo.bound);
    if d1 > geo.bound {
        return k8(k8_shape, format!("{}{}: path lies {d1} away from the exact curve, bound {}", geo.family, if fell_back { " (Bezier fallback of a triple that is neither collinear nor enormous)" } else { "" }, geo.bound));
    }
    let d2 = directed(&geo.exact, &pathp, geo.bound);
    if d2 > geo.bound {
        return k8(k8_shape, format!("{}{}: exact curve lies {d2} away from the path, bound {}", geo.family, if fell_back { " (Bezier fallback of a triple that is neither collinear nor enormous)" } else { "" }, geo.bound));
    }
    SegVerdict::Ok(geo.family)
}

/// split a control-point list into its segments the way the format defines them
fn segments(pts: &[PathControlPoint]) -> Vec<(SplineType, Vec<PathControlPoint>)> {
    let mut out = vec![];
    let mut start = 0usize;
    for i in 0..pts.len() {
        if pts[i].path_type.is_none() && i < pts.len() - 1 {
            continue;
        }
        if i > start {
            let kind = pts[start].path_type.map_or(SplineType::Linear, |t| t.kind);
            let mut seg: Vec<PathControlPoint> = pts[start..=i].to_vec();
            for p in seg.iter_mut().skip(1) {
                p.path_type = None;
            }
            out.push((kind, seg));
        }
        start = i;
    }
    out
}

fn check_case(mode: GameMode, pts: &[PathControlPoint], open: (bool, bool), st: &mut Stats) -> CaseResult {
    let (open_k8, open_k13) = open;
    st.eval();
    let segs = segments(pts);
    let whole = path_of(mode, pts);
    let fail = |m: String| Err(Fail::json(m, &case_json(mode, pts)));
    // P_k: the path of the list cut after its k-th segment
    let mut prefix: Vec<Pos> = if !pts.is_empty() && (pts[0].path_type.is_some() || pts.len() == 1) { vec![pts[0].pos] } else { vec![] };
    let mut end_idx = 0usize;
    let mut prev_exact_end = true; // the one-vertex prefix is the control point itself
    let mut curved = false;
    let mut k8_hit = false;
    for (kind, seg) in &segs {
        end_idx += seg.len() - 1;
        // (1) cutting the list at a segment boundary yields a prefix of the whole path
        let upto = path_of(mode, &pts[..=end_idx]);
        if upto.len() < prefix.len() || upto[..prefix.len()] != prefix[..] {
            return fail(format!("the path of the first {} control points is not an extension of the path of the previous segments", end_idx + 1));
        }
        let rest = &upto[prefix.len()..];
        // (2) a joint vertex produced identically by two consecutive segments appears once
        let true_arc = *kind == SplineType::PerfectCurve && seg.len() == 3;
        let starts_exact = !true_arc;
        let nondegenerate = seg[1..].iter().all(|p| p.pos != seg[0].pos);
        // (a segment whose own first two samples coincide at f32 resolution - control points a few ulps apart,
        // e.g. a Catmull span of 0.01 px at |coord| = 4096 - legitimately repeats the vertex: that is the
        // segment's sampling, not the joint, and clause (3) pins the contribution exactly)
        let own = path_of(mode, seg);
        let own_repeats_start = own.len() >= 2 && own[0] == own[1];
        if prev_exact_end && starts_exact && nondegenerate && !prefix.is_empty() && !own_repeats_start {
            if rest.first() == prefix.last() {
                return fail(format!("joint vertex {:?} appears twice (end of one segment and start of the next)", prefix.last().unwrap()));
            }
        }
        // geometry of the segment on its own (also classifies the known finding, whose
        // output may contain NaN and therefore cannot take part in the equality checks)
        let seg_verdict = check_segment(mode, *kind, seg);
        if let SegVerdict::Known(key, msg) = &seg_verdict {
            if (*key == K8 && open_k8) || (*key == K13 && open_k13) {
                st.known(key);
                k8_hit = true;
                prev_exact_end = false;
                prefix = upto;
                continue;
            }
            return fail(format!("{msg} (shape of the finding {key}, which is not listed as open)"));
        }
        // (3) in context the segment contributes what it produces on its own
        let sp = own;
        let dedupe = |v: &[Pos]| -> Vec<Pos> {
            if !prefix.is_empty() && v.first() == prefix.last() { v[1..].to_vec() } else { v.to_vec() }
        };
        let cand_a = dedupe(&sp);
        let cand_b = if true_arc && sp.len() >= 2 { Some(dedupe(&sp[1..])) } else { None };
        if rest != &cand_a[..] && cand_b.as_deref() != Some(rest) {
            return fail(format!(
                "segment ending at control point {end_idx} contributes {} vertices in context but {} on its own (identical joint merged)",
                rest.len(),
                cand_a.len()
            ));
        }
        prev_exact_end = matches!(kind, SplineType::BSpline | SplineType::Linear) || (*kind == SplineType::PerfectCurve && seg.len() != 3);
        prefix = upto;
        match seg_verdict {
            SegVerdict::Ok(fam) => {
                st.label(fam);
                if fam != "linear" && fam != "arc:collinear-fallback" && seg.len() >= 3 {
                    curved = true;
                }
            }
            SegVerdict::Known(..) => unreachable!(),
            SegVerdict::Fail(m) => {
                let mut v = case_json(mode, pts);
                v["failing_segment"] = points_json(seg);
                return Err(Fail::json(m, &v));
            }
        }
    }
    if k8_hit && whole.iter().any(|p| p.x.is_nan() || p.y.is_nan()) {
        return Ok(());
    }
    if whole != prefix {
        return fail(format!("whole path has {} vertices, the segment-wise construction {}", whole.len(), prefix.len()));
    }
    if curved {
        let fresh = st.nontrivial(hash_points(mode, pts, None));
        if fresh && pts.len() >= 4 {
            st.sample(|| case_json(mode, pts));
        }
    }
    Ok(())
}

// ---- generators ----------------------------------------------------------------
fn coord(t: &mut Tape, class: usize) -> f32 {
    match class {
        0 => t.int(-4, 4) as f32,
        1 => t.int(0, 512) as f32,
        2 => t.int(-2048, 2048) as f32 / 4.0,
        3 => t.int(-4096, 4096) as f32,
        _ => (t.unit() * 8192.0 - 4096.0) as f32,
    }
}

fn gen_family(t: &mut Tape) -> (GameMode, Vec<PathControlPoint>) {
    let class = t.weighted(&[2, 4, 3, 3, 2]);
    let fam = t.weighted(&[4, 5, 4, 1, 4]);
    let mut mode = *t.pick(&[GameMode::Taiko, GameMode::Catch, GameMode::Mania, GameMode::Taiko]);
    let mk = |t: &mut Tape, ty: PathType, n: usize| -> Vec<PathControlPoint> {
        (0..n)
            .map(|i| PathControlPoint { pos: Pos::new(coord(t, class), coord(t, class)), path_type: if i == 0 { Some(ty) } else { None } })
            .collect()
    };
    let pts = match fam {
        0 => {
            let n = 2 + t.below(9);
            if t.chance(25) {
                // a smooth, gently bending control polygon: points evenly spaced on a large circle (non-integer
                // coordinates, tiny second differences) - still a curve, not a straight line
                let r = *t.pick(&[300.0f64, 1000.0, 2000.0, 5000.0]);
                let step = *t.pick(&[5.0f64, 10.0, 20.0, 40.0]) / r;
                let a0 = t.unit() * std::f64::consts::TAU;
                let (cx, cy) = (t.unit() * 400.0 - 200.0, t.unit() * 400.0 - 200.0);
                (0..n.max(3))
                    .map(|i| {
                        let a = a0 + step * i as f64;
                        PathControlPoint { pos: Pos::new((cx + r * a.cos()) as f32, (cy + r * a.sin()) as f32), path_type: if i == 0 { Some(PathType::BEZIER) } else { None } }
                    })
                    .collect()
            } else {
                mk(t, PathType::BEZIER, n)
            }
        }
        1 => {
            // three-point arcs incl. near-collinear triples
            let mut p = mk(t, PathType::PERFECT_CURVE, 3);
            if t.chance(25) {
                // middle point close to the chord (inside or outside it)
                let (a, c) = (p[0].pos, p[2].pos);
                let f = (t.unit() * 3.0 - 1.0) as f32;
                let off = *t.pick(&[0.0f32, 1.0, -1.0, 0.25, 2.0, -3.0]);
                let d = c - a;
                let l = d.length().max(1.0);
                p[1].pos = Pos::new(a.x + d.x * f - d.y / l * off, a.y + d.y * f + d.x / l * off);
                if class <= 3 {
                    p[1].pos = Pos::new((p[1].pos.x * 4.0).round() / 4.0, (p[1].pos.y * 4.0).round() / 4.0);
                }
            } else if t.chance(20) {
                // two of the three points distinct but very close (2e-4 .. 1e-1 px): b next to a, c next to b,
                // or c next to a (an almost closed circle). Only at small coordinates (|x| <= 8), so that the
                // tiny side is still hundreds of f32 ulps long - otherwise the triangle is rounding noise
                for q in p.iter_mut() {
                    q.pos = Pos::new((t.unit() * 16.0 - 8.0) as f32, (t.unit() * 16.0 - 8.0) as f32);
                    if t.chance(50) {
                        q.pos = Pos::new(q.pos.x.round(), q.pos.y.round());
                    }
                }
                let d = *t.pick(&[2e-4f32, 5e-4, 1e-3, 2e-3, 1e-2, 1e-1]);
                let ang = t.unit() * std::f64::consts::TAU;
                let off = Pos::new((ang.cos() as f32) * d, (ang.sin() as f32) * d);
                match t.below(3) {
                    0 => p[1].pos = p[0].pos + off,
                    1 => p[2].pos = p[1].pos + off,
                    _ => p[2].pos = p[0].pos + off,
                }
            }
            p
        }
        2 => {
            if t.chance(35) {
                mode = GameMode::Osu;
            }
            let n = 2 + t.below(7);
            mk(t, PathType::CATMULL, n)
        }
        3 => {
            let n = 2 + t.below(5);
            mk(t, PathType::LINEAR, n)
        }
        _ => {
            // multi-segment
            let (pts, _) = gen_points(t, 12, false);
            if t.chance(30) {
                mode = GameMode::Osu;
            }
            pts
        }
    };
    (mode, pts)
}

pub fn run(ctx: &mut Ctx) {
    ctx.rule = "cases are (mode, control-point list) at natural length: single segments of each family (Bezier 2..10 points, three-point arcs incl. near-collinear, Catmull 2..8 incl. osu! mode, linear) and multi-segment lists, coordinates in [-4096,4096] (ints, quarter pixels, reals). Exhaustive: three-point perfect curves on the integer grid [-4,4]^2 (first point at the origin in quick, all three free in thorough). Oracle: two-sided Hausdorff distance between Curve::path() and a dense f64 evaluation of the exact curve (de Casteljau / circumcircle arc / uniform Catmull-Rom) against a per-family bound; start/end at the first/last control point; fallbacks compared exactly with the Bezier of the same points; whole path == concatenation of per-segment paths with identical joints merged. Non-trivial = some curved segment (not linear, not exactly collinear) with >= 3 points; distinct by hash(mode, points).".into();
    ctx.assumptions.push("bounds: Bezier 0.25 (the flatness tolerance) + 2^-20*scale; arc 0.4 (=2r(0.1/r)(2-0.1/r), one interval may subtend twice the tolerance angle) + 8 f32 ulps for r<1e4, 1.0 for 1e4<=r<1e6 (f32 value of 1-0.1/r has few bits); Catmull h^2/8*max|P''| with h=1/50 + 2^-18*scale, +6 px in osu! mode (simplification threshold); reference sampling error added".into());
    ctx.assumptions.push("B<k> (degree) path types are not generated: the crate treats every B-spline as a Bezier".into());
    let open_k8 = ctx.open(K8);
    let open_k13 = ctx.open(K13);
    let open = (open_k8, open_k13);
    crate::props::replay_regress_generic(ctx, replay);

    // exhaustive arcs on the small grid
    let full = ctx.tier == Tier::Thorough;
    let total: u64 = if full { 81 * 81 * 81 } else { 81 * 81 };
    ctx.enumerate(if full { "three-point perfect curves on [-4,4]^2 (all three points free)" } else { "three-point perfect curves on [-4,4]^2 (first point at the origin)" }, total, |i, st| {
        let c = |v: u64| (v % 9) as f32 - 4.0;
        let b = Pos::new(c(i), c(i / 9));
        let cc = Pos::new(c(i / 81), c(i / 729));
        let a = if full { Pos::new(c(i / 6561), c(i / 59049)) } else { Pos::new(0.0, 0.0) };
        let pts = vec![
            PathControlPoint { pos: a, path_type: Some(PathType::PERFECT_CURVE) },
            PathControlPoint { pos: b, path_type: None },
            PathControlPoint { pos: cc, path_type: None },
        ];
        st.eval();
        match check_segment(GameMode::Taiko, SplineType::PerfectCurve, &pts) {
            SegVerdict::Ok(fam) => {
                if fam.starts_with("arc") && fam != "arc:collinear-fallback" {
                    st.nontrivial_distinct();
                    if i % 1009 == 3 {
                        st.sample(|| case_json(GameMode::Taiko, &pts));
                    }
                }
                Ok(())
            }
            SegVerdict::Known(key, msg) => {
                if (key == K8 && open_k8) || (key == K13 && open_k13) {
                    st.known(key);
                    Ok(())
                } else {
                    Err(Fail::json(msg, &case_json(GameMode::Taiko, &pts)))
                }
            }
            SegVerdict::Fail(m) => Err(Fail::json(m, &case_json(GameMode::Taiko, &pts))),
        }
    });

    let cases = ctx.tier.pick(60_000u64, 600_000u64);
    ctx.pbt("c17-random", cases, 200, |t, st| {
        let (mode, pts) = gen_family(t);
        check_case(mode, &pts, open, st)
    });

    // probe K8: near-collinear triples with a huge circumradius
    let probe = ctx.tier.pick(3_000u64, 30_000u64);
    ctx.pbt("c17-probe-k8", probe, 64, |t, st| {
        let a = Pos::new(t.int(-512, 512) as f32, t.int(-512, 512) as f32);
        let d = Pos::new(t.int(-600, 600) as f32, t.int(-600, 600) as f32);
        let f = t.int(1, 7) as f32 / 8.0;
        // middle point one pixel off a long chord
        let b = Pos::new((a.x + d.x * f).round() + *t.pick(&[0.0f32, 1.0, -1.0]), (a.y + d.y * f).round());
        let c = a + d;
        let pts = vec![
            PathControlPoint { pos: a, path_type: Some(PathType::PERFECT_CURVE) },
            PathControlPoint { pos: b, path_type: None },
            PathControlPoint { pos: c, path_type: None },
        ];
        st.label("probe:k8");
        check_case(GameMode::Taiko, &pts, open, st)
    });
}

pub fn replay(ctx: &mut Ctx, ext: &str, bytes: &[u8]) -> Result<Option<String>, Fail> {
    let (mode, pts) = if ext == "tape" {
        gen_family(&mut Tape::new(bytes))
    } else {
        let v: Value = serde_json::from_slice(bytes).map_err(|e| Fail::new(format!("bad JSON {e}"), "json", bytes.to_vec()))?;
        let mode = v["mode"].as_str().and_then(mode_from_name).ok_or_else(|| Fail::new("bad mode", "json", bytes.to_vec()))?;
        let pts = points_from_json(&v["points"]).ok_or_else(|| Fail::new("bad points", "json", bytes.to_vec()))?;
        (mode, pts)
    };
    let mut st = Stats::default();
    check_case(mode, &pts, (ctx.open(K8), ctx.open(K13)), &mut st)?;
    Ok([K8, K13].into_iter().find(|k| st.known_hits.contains_key(*k)).map(|k| k.to_string()))
}
