//! C16 - a slider's curve honours the requested pixel length.

use crate::engine::*;
use crate::gen::curve::*;
use rosu_map::section::general::GameMode;
use rosu_map::section::hit_objects::{Curve, CurveBuffers, PathControlPoint, PathType, SplineType};
use rosu_map::util::Pos;
use serde_json::{json, Value};

pub const K7: &str = "c16.catmull_surplus_exceeds_length";

fn case_json(mode: GameMode, pts: &[PathControlPoint], l: Option<f64>) -> Value {
    json!({"mode": mode_name(mode), "points": points_json(pts), "expected_len": l})
}

fn finite(p: &[Pos]) -> bool {
    p.iter().all(|p| p.x.is_finite() && p.y.is_finite())
}

fn has_catmull(pts: &[PathControlPoint]) -> bool {
    pts.iter().any(|p| p.path_type.map_or(false, |t| t.kind == SplineType::Catmull))
}

/// natural-length invariants; returns the natural curve
fn check_natural(mode: GameMode, pts: &[PathControlPoint]) -> Result<Curve, String> {
    let nat = Curve::new(mode, pts, None, &mut CurveBuffers::default());
    let (np, nl) = (nat.path(), nat.lengths());
    if nl.is_empty() || nl[0] != 0.0 {
        return Err(format!("cumulative lengths do not start at 0: {:?}", &nl[..nl.len().min(3)]));
    }
    if nl.len() != np.len().max(1) {
        return Err(format!("{} cumulative lengths for {} path points", nl.len(), np.len()));
    }
    if nl.iter().any(|l| !l.is_finite()) || !finite(np) {
        return Err("non-finite length or path point without a requested length".into());
    }
    if nl.windows(2).any(|w| w[1] < w[0] - 1e-5) {
        return Err("cumulative lengths decrease by more than 1e-5".into());
    }
    // without a requested length the distance is the polyline's own length
    let poly: f64 = np.windows(2).map(|w| f64::from((w[1] - w[0]).length())).sum();
    let simplifies = mode == GameMode::Osu && has_catmull(pts);
    if !simplifies {
        if (nat.dist() - poly).abs() > 1e-9 * poly.max(1.0) {
            return Err(format!("natural distance {} is not the polyline length {}", nat.dist(), poly));
        }
    } else if nat.dist() < poly - 1e-5 - 1e-9 * poly {
        return Err(format!("natural distance {} is below the simplified polyline's length {}", nat.dist(), poly));
    }
    // osu! mode simplification leaves the total unchanged
    let other_mode = if mode == GameMode::Osu { GameMode::Taiko } else { GameMode::Osu };
    let other = Curve::new(other_mode, pts, None, &mut CurveBuffers::default());
    if (other.dist() - nat.dist()).abs() > 1e-6 * nat.dist().max(1.0) {
        return Err(format!(
            "total length differs between {} ({}) and {} ({})",
            mode_name(mode), nat.dist(), mode_name(other_mode), other.dist()
        ));
    }
    Ok(nat)
}

enum Adj {
    Ok,
    K7,
    Fail(String),
}

fn check_adjusted(mode: GameMode, pts: &[PathControlPoint], nat: &Curve, l: f64) -> Adj {
    let (np, nl) = (nat.path(), nat.lengths());
    let nd = nat.dist();
    let adj = Curve::new(mode, pts, Some(l), &mut CurveBuffers::default());
    let (ap, al) = (adj.path(), adj.lengths());
    let scale = scale_of(pts);
    if al.is_empty() || al[0] != 0.0 {
        return Adj::Fail("adjusted cumulative lengths do not start at 0".into());
    }
    if (l - nd).abs() < f64::EPSILON {
        if ap != np || adj.dist() != nd {
            return Adj::Fail("requested length equals the natural length but the curve changed".into());
        }
        return Adj::Ok;
    }
    let last_two_eq = np.len() >= 2 && np[np.len() - 1] == np[np.len() - 2];
    let exception = np.len() <= 1 || (last_two_eq && l > nd);
    if exception {
        if adj.dist() != nd {
            return Adj::Fail(format!("exception case (single point / trailing duplicate and L > natural) must keep the natural length {nd}, got {}", adj.dist()));
        }
        if ap != np {
            return Adj::Fail("exception case must keep the natural path".into());
        }
        if al.iter().any(|x| !x.is_finite()) || al.windows(2).any(|w| w[1] < w[0] - 1e-5) {
            return Adj::Fail("exception case: lengths not finite / monotone".into());
        }
        return Adj::Ok;
    }
    // K7: osu mode, natural path starts with two equal vertices and the Catmull surplus exceeds L
    let k7_shape = mode == GameMode::Osu
        && np.len() >= 2
        && np[0] == np[1]
        && ap.len() == 2
        && ap[0] == np[0]
        && (ap[1].x.is_nan() || ap[1].y.is_nan())
        && nl[1] >= l;
    if adj.dist() != l {
        return Adj::Fail(format!("dist() = {} but the requested length is {l} (natural {nd})", adj.dist()));
    }
    if !finite(ap) || al.iter().any(|x| !x.is_finite()) {
        if k7_shape {
            return Adj::K7;
        }
        return Adj::Fail(format!("non-finite point or length in the adjusted curve: path tail {:?}", &ap[ap.len().saturating_sub(2)..]));
    }
    if al.windows(2).any(|w| w[1] < w[0] - 1e-5) {
        return Adj::Fail("adjusted cumulative lengths decrease by more than 1e-5".into());
    }
    if al.len() != ap.len() {
        return Adj::Fail(format!("{} lengths for {} points", al.len(), ap.len()));
    }
    // shape: the natural curve cut at L, or its last segment extended
    let k = if l > nd {
        np.len() - 2
    } else {
        let mut k = 0;
        for i in 0..np.len() - 1 {
            if nl[i] < l {
                k = i;
            }
        }
        k
    };
    if ap.len() != k + 2 {
        return Adj::Fail(format!("adjusted path has {} points; cutting the natural path at {l} keeps vertices 0..={k} plus the cut point", ap.len()));
    }
    if ap[..=k] != np[..=k] {
        return Adj::Fail("adjusted path does not start with the natural path's vertices".into());
    }
    if al[..=k].iter().zip(&nl[..=k]).any(|(a, b)| a != b) {
        return Adj::Fail("adjusted cumulative lengths differ from the natural ones before the cut".into());
    }
    let (a, b) = (np[k], np[k + 1]);
    let seg = ((b.x - a.x) as f64, (b.y - a.y) as f64);
    let sl = (seg.0 * seg.0 + seg.1 * seg.1).sqrt();
    if sl == 0.0 {
        return Adj::Fail("cut falls on a zero-length segment".into());
    }
    let want = (a.x as f64 + seg.0 / sl * (l - nl[k]), a.y as f64 + seg.1 / sl * (l - nl[k]));
    let got = ap[k + 1];
    let err = ((got.x as f64 - want.0).powi(2) + (got.y as f64 - want.1).powi(2)).sqrt();
    // f32 arithmetic: the direction is normalised in f32 (relative error of a few 1e-7, scaled by the
    // extension) and the sum is rounded at the magnitude of the *path* coordinates (which can exceed the
    // control points' for large arcs): two f32 ulps of that magnitude.
    let path_scale = [a.x, a.y, b.x, b.y, got.x, got.y].iter().fold(scale, |m, c| m.max(c.abs() as f64));
    let tol = 1e-3 + 2.4e-7 * path_scale + 1e-6 * (l - nl[k]).abs();
    if err > tol {
        return Adj::Fail(format!("end point {:?} is {err} away from the point at distance {} along segment {k} ({want:?})", got, l - nl[k]));
    }
    Adj::Ok
}

fn lengths_for(t: &mut Tape, nd: f64) -> Vec<f64> {
    let mut v = vec![1e-3, nd, nd + 1e-9, nd * 1.5 + 10.0, 131072.0];
    v.push(nd * (t.int(0, 999) as f64 + 0.5) / 1000.0);
    v.push(nd * t.unit());
    if nd > 1e-9 {
        v.push(nd - 1e-9);
    }
    v.push(*t.pick(&[1.0, 0.5, 100.0, 2.5e-16, 1e-9, 50.25, 1e6]));
    v.retain(|l| *l > 0.0 && l.is_finite());
    v
}

fn check_case(mode: GameMode, pts: &[PathControlPoint], ls: &[f64], open_k7: bool, st: &mut Stats) -> CaseResult {
    let nat = match check_natural(mode, pts) {
        Ok(n) => n,
        Err(m) => return Err(Fail::json(m, &case_json(mode, pts, None))),
    };
    let interesting = pts.len() >= 3 || pts.iter().skip(1).any(|p| p.path_type.is_some());
    for &l in ls {
        st.eval();
        if interesting {
            let fresh = st.nontrivial(hash_points(mode, pts, Some(l)));
            if fresh && pts.len() >= 4 {
                st.sample(|| case_json(mode, pts, Some(l)));
            }
        }
        st.label(if l > nat.dist() { "L beyond natural" } else if l == nat.dist() { "L == natural" } else { "L inside" });
        match check_adjusted(mode, pts, &nat, l) {
            Adj::Ok => {}
            Adj::K7 => {
                if open_k7 {
                    st.known(K7);
                } else {
                    return Err(Fail::json("NaN end point: osu! mode, duplicated first vertex, Catmull surplus exceeds the requested length", &case_json(mode, pts, Some(l))));
                }
            }
            Adj::Fail(m) => return Err(Fail::json(m, &case_json(mode, pts, Some(l)))),
        }
    }
    Ok(())
}

// exhaustive grids: 2- and 3-point paths of every type on [-3,3]^2 (first point at the origin)
fn grid_case(idx: u64) -> (GameMode, Vec<PathControlPoint>) {
    // idx: mode(4) x type(4) x npts{2,3} ...
    let mut i = idx;
    let mode = MODES[(i % 4) as usize];
    i /= 4;
    let ty = [PathType::BEZIER, PathType::LINEAR, PathType::PERFECT_CURVE, PathType::CATMULL][(i % 4) as usize];
    i /= 4;
    let three = i % 2 == 1;
    i /= 2;
    let c = |v: u64| (v % 7) as f32 - 3.0;
    let p1 = Pos::new(c(i), c(i / 7));
    i /= 49;
    let mut pts = vec![
        PathControlPoint { pos: Pos::new(0.0, 0.0), path_type: Some(ty) },
        PathControlPoint { pos: p1, path_type: None },
    ];
    if three {
        let p2 = Pos::new(c(i), c(i / 7));
        pts.push(PathControlPoint { pos: p2, path_type: None });
    }
    (mode, pts)
}

pub fn run(ctx: &mut Ctx) {
    ctx.rule = "cases are (mode, control-point list, requested length L). Random: 1..12 points, coordinate classes {tiny grid, screen ints, quarter pixels, +-4096, duplicates, collinear, +-262144}, type layouts, x 9 lengths per list (tiny, inside, natural, natural+-1e-9, beyond, 131072, pool). Exhaustive: 2- and 3-point paths of the 4 types on the integer grid [-3,3]^2 x 4 modes x 5 lengths. Oracle: dist()==L unless single point / trailing duplicate with L>natural; shape = natural curve cut at L (prefix equality, end point on the cut segment) or last segment extended; lengths start at 0, monotone (1e-5), finite; natural distance = polyline length; osu-vs-other-mode totals within 1e-6. Non-trivial = >= 3 control points or a typed interior point, with L given; distinct by hash(mode, points, L).".into();
    ctx.assumptions.push("coordinates are finite and bounded by what the decoder can produce (|c| <= 262144); L > 0 and finite".into());
    let open_k7 = ctx.open(K7);
    crate::props::replay_regress_generic(ctx, replay);

    // grid: 4 modes x 4 types x (49 + 49*49)
    let total = 4 * 4 * 2 * 49 * 49;
    ctx.enumerate("2-/3-point paths on [-3,3]^2 x types x modes", total, |i, st| {
        let (mode, pts) = grid_case(i);
        // 2-point cases are enumerated 49 times (ignored third point): only count the canonical one
        if pts.len() == 2 && (i / (4 * 4 * 2 * 49)) != 0 {
            return Ok(());
        }
        let nat_d = Curve::new(mode, &pts, None, &mut CurveBuffers::default()).dist();
        let ls: Vec<f64> = [1e-3, nat_d * 0.37, nat_d, nat_d + 2.0, 131072.0].into_iter().filter(|l| *l > 0.0).collect();
        if pts.len() >= 3 {
            st.nontrivial_enum += ls.len() as u64;
        }
        // enumeration: distinct by construction, do not hash
        let nat = check_natural(mode, &pts).map_err(|m| Fail::json(m, &case_json(mode, &pts, None)))?;
        for &l in &ls {
            st.eval();
            match check_adjusted(mode, &pts, &nat, l) {
                Adj::Ok => {}
                Adj::K7 => {
                    if open_k7 {
                        st.known(K7)
                    } else {
                        return Err(Fail::json("NaN end point (K7 shape)", &case_json(mode, &pts, Some(l))));
                    }
                }
                Adj::Fail(m) => return Err(Fail::json(m, &case_json(mode, &pts, Some(l)))),
            }
        }
        Ok(())
    });

    let cases = ctx.tier.pick(600_000u64, 5_000_000u64);
    ctx.pbt("c16-random", cases, 160, |t, st| {
        let mode = gen_mode(t);
        let (pts, class) = gen_points_ex(t, 12, true, true);
        st.label(&format!("coords:{class:?}"));
        let nd = Curve::new(mode, &pts, None, &mut CurveBuffers::default()).dist();
        let ls = lengths_for(t, nd);
        check_case(mode, &pts, &ls, open_k7, st)
    });

    // probe for K7: Catmull with a duplicated first control point in osu! mode, tiny L
    let probe = ctx.tier.pick(3_000u64, 30_000u64);
    ctx.pbt("c16-probe-k7", probe, 64, |t, st| {
        let n = 2 + t.below(4);
        let mut pts: Vec<PathControlPoint> = (0..n)
            .map(|_| PathControlPoint { pos: Pos::new(t.int(0, 64) as f32, t.int(0, 64) as f32), path_type: None })
            .collect();
        pts[0].path_type = Some(PathType::CATMULL);
        let first = pts[0];
        pts.insert(1, PathControlPoint { pos: first.pos, path_type: None });
        st.label("probe:k7");
        check_case(GameMode::Osu, &pts, &[1e-3, 0.5], open_k7, st)
    });
}

pub fn replay(ctx: &mut Ctx, ext: &str, bytes: &[u8]) -> Result<Option<String>, Fail> {
    let (mode, pts, ls) = if ext == "tape" {
        let mut t = Tape::new(bytes);
        let mode = gen_mode(&mut t);
        let (pts, _) = gen_points_ex(&mut t, 12, true, true);
        let nd = Curve::new(mode, &pts, None, &mut CurveBuffers::default()).dist();
        let ls = lengths_for(&mut t, nd);
        (mode, pts, ls)
    } else {
        let v: Value = serde_json::from_slice(bytes).map_err(|e| Fail::new(format!("bad JSON {e}"), "json", bytes.to_vec()))?;
        let mode = v["mode"].as_str().and_then(mode_from_name).ok_or_else(|| Fail::new("bad mode", "json", bytes.to_vec()))?;
        let pts = points_from_json(&v["points"]).ok_or_else(|| Fail::new("bad points", "json", bytes.to_vec()))?;
        let ls = v["expected_len"].as_f64().map(|l| vec![l]).unwrap_or_default();
        (mode, pts, ls)
    };
    let nat = check_natural(mode, &pts).map_err(|m| Fail::json(m, &case_json(mode, &pts, None)))?;
    let mut known = None;
    for l in ls {
        match check_adjusted(mode, &pts, &nat, l) {
            Adj::Ok => {}
            Adj::K7 if ctx.open(K7) => known = Some(K7.to_string()),
            Adj::K7 => return Err(Fail::json("NaN end point (K7 shape)", &case_json(mode, &pts, Some(l)))),
            Adj::Fail(m) => return Err(Fail::json(m, &case_json(mode, &pts, Some(l)))),
        }
    }
    Ok(known)
}
