//! C12 - timing-point lines resolve by the legacy precedence rules.

use crate::engine::*;
use crate::refmodel::ctrlpoints as m;
use crate::refmodel::timing::Model;
use rosu_map::section::general::GameMode;
use rosu_map::section::timing_points::{ControlPoints, TimingPoints};
use rosu_map::Beatmap;
use serde_json::json;

pub const K6: &str = "c12.negative_zero_time";

#[derive(Clone, Debug)]
pub struct Case {
    /// format version of the header line (the timing-point rules do not depend on it)
    pub ver: i32,
    /// the [TimingPoints] section is interrupted before line `.0` by another section (kind `.1`) and resumed:
    /// the rules do not depend on that
    pub split: Option<(usize, u8)>,
    /// replayed files: the text as given (the fields below describe it)
    pub raw: Option<String>,
    pub mode: u8,
    pub def_bank_line: &'static str,
    pub def_vol_line: &'static str,
    pub lines: Vec<String>,
}

/// what may stand between two parts of the [TimingPoints] section
const SPLITS: &[&str] = &[
    "\n[Colours]\nCombo1 : 1,2,3\n\n",
    "\n[HitObjects]\n100,100,0,1,0\n\n",
    "[Metadata]\nTitle:x\n",
    "\n[HitObjects]\n\n",
    "[Events]\n2,100,200\n[Difficulty]\nSliderMultiplier:1.2\n",
    "[Unknown]\n",
];

const BANK_LINES: &[(&str, u8)] = &[
    ("", 0),
    ("SampleSet: Soft\n", 2),
    ("SampleSet: 3\n", 3),
    ("SampleSet: None\n", 0),
    ("SampleSet: x\n", 0),
    ("SampleSet: Normal\n", 1),
];
const VOL_LINES: &[(&str, i32)] = &[
    ("", 100),
    ("SampleVolume: 40\n", 40),
    ("SampleVolume: 130\n", 130),
    ("SampleVolume: -5\n", -5),
    ("SampleVolume: x\n", 100),
];

impl Case {
    pub fn text(&self) -> String {
        if let Some(r) = &self.raw {
            return r.clone();
        }
        let mut s = format!(
            "osu file format v{}\n\n[General]\nMode: {}\n{}{}\n[TimingPoints]\n",
            self.ver, self.mode, self.def_bank_line, self.def_vol_line
        );
        for (i, l) in self.lines.iter().enumerate() {
            if let Some((at, kind)) = self.split {
                if at == i {
                    s.push_str(SPLITS[kind as usize % SPLITS.len()]);
                    s.push_str("[TimingPoints]\n");
                }
            }
            s.push_str(l);
            s.push('\n');
        }
        s
    }
    fn def_bank(&self) -> u8 {
        BANK_LINES.iter().find(|(l, _)| *l == self.def_bank_line).map_or(0, |x| x.1)
    }
    fn def_vol(&self) -> i32 {
        VOL_LINES.iter().find(|(l, _)| *l == self.def_vol_line).map_or(100, |x| x.1)
    }
}

struct Outcome {
    nontrivial: bool,
    group: bool,
    dropped_or_replaced: bool,
}

fn invariants(cp: &ControlPoints, mode: u8, nan_inherited: bool) -> Result<(), String> {
    fn inc(ts: Vec<f64>) -> bool {
        ts.windows(2).all(|w| w[0] < w[1])
    }
    if !inc(cp.timing_points.iter().map(|p| p.time).collect())
        || !inc(cp.difficulty_points.iter().map(|p| p.time).collect())
        || !inc(cp.effect_points.iter().map(|p| p.time).collect())
        || !inc(cp.sample_points.iter().map(|p| p.time).collect())
    {
        return Err("a control-point list is not strictly increasing in time".into());
    }
    for p in &cp.timing_points {
        if !(p.beat_len >= 6.0 && p.beat_len <= 60000.0) {
            return Err(format!("beat length {} outside [6, 60000] (or NaN)", p.beat_len));
        }
    }
    for p in &cp.difficulty_points {
        if !(p.slider_velocity >= 0.1 && p.slider_velocity <= 10.0) {
            return Err(format!("slider velocity {} outside [0.1, 10]", p.slider_velocity));
        }
        if !p.generate_ticks && !nan_inherited {
            return Err("generate_ticks == false without an inherited NaN line".into());
        }
    }
    for p in &cp.effect_points {
        if !(p.scroll_speed >= 0.01 && p.scroll_speed <= 10.0) {
            return Err(format!("scroll speed {} outside [0.01, 10]", p.scroll_speed));
        }
        if !(mode == 1 || mode == 3) && p.scroll_speed != 1.0 {
            return Err(format!("scroll speed {} in a mode other than taiko/mania", p.scroll_speed));
        }
    }
    for p in &cp.sample_points {
        if !(0..=100).contains(&p.sample_volume) {
            return Err(format!("sample volume {} outside [0, 100]", p.sample_volume));
        }
    }
    Ok(())
}

fn evaluate(case: &Case) -> Result<Outcome, String> {
    let text = case.text();
    let mut model = Model::new(case.mode, case.def_bank(), case.def_vol());
    for l in &case.lines {
        // framing: blank and comment lines never reach the parser
        let tl = l.trim_end();
        if tl.is_empty() || tl.trim_start().starts_with("//") {
            continue;
        }
        model.line(tl);
    }
    model.flush();
    let tp: TimingPoints = rosu_map::from_str(&text).map_err(|e| format!("decode error {e}"))?;
    let got = m::lists_of(&tp.control_points);
    if !m::lists_eq(&got, &model.lists) {
        return Err(format!(
            "TimingPoints::control_points differ from the legacy model\n impl  {:?}\n model {:?}",
            got, model.lists
        ));
    }
    let bm: Beatmap = rosu_map::from_str(&text).map_err(|e| format!("decode error {e}"))?;
    let got_b = m::lists_of(&bm.control_points);
    if !m::lists_eq(&got_b, &model.lists) {
        return Err(format!(
            "Beatmap::control_points differ from the legacy model\n impl  {:?}\n model {:?}",
            got_b, model.lists
        ));
    }
    let want_mode = [GameMode::Osu, GameMode::Taiko, GameMode::Catch, GameMode::Mania][case.mode as usize];
    if tp.mode != want_mode {
        return Err(format!("mode {:?} != {:?}", tp.mode, want_mode));
    }
    invariants(&tp.control_points, case.mode, model.nan_inherited)?;
    let stored = model.lists.t.len() + model.lists.d.len() + model.lists.e.len() + model.lists.s.len();
    // every accepted line offers >= 3 points (4 for timing-change lines)
    let dropped_or_replaced = stored < model.accepted as usize * 3;
    Ok(Outcome {
        nontrivial: model.same_time_group || (dropped_or_replaced && model.accepted >= 2),
        group: model.same_time_group,
        dropped_or_replaced,
    })
}

fn time_is_neg_zero(line: &str) -> bool {
    let f = line.split(',').next().unwrap_or("");
    f.trim().parse::<f64>().map_or(false, |t| t == 0.0 && t.is_sign_negative())
}

fn classify_k6(case: &Case) -> bool {
    if !case.lines.iter().any(|l| time_is_neg_zero(l)) {
        return false;
    }
    let mut c = case.clone();
    c.raw = None; // (a replayed file is rebuilt from its fields)
    for l in c.lines.iter_mut() {
        if time_is_neg_zero(l) {
            let rest = l.splitn(2, ',').nth(1).map(|r| format!(",{r}")).unwrap_or_default();
            *l = format!("0{rest}");
        }
    }
    evaluate(&c).is_ok()
}

fn verdict(open_k6: bool, case: &Case, st: &mut Stats, distinct_by_construction: bool) -> CaseResult {
    st.eval();
    match evaluate(case) {
        Ok(o) => {
            if o.nontrivial {
                if distinct_by_construction {
                    st.nontrivial_distinct();
                } else if st.nontrivial(hash64(&case.text())) && case.lines.len() >= 3 {
                    st.sample(|| json!(case.text()));
                }
            }
            if o.group {
                st.label("same-time group");
            }
            if o.dropped_or_replaced {
                st.label("point dropped or replaced");
            }
            Ok(())
        }
        Err(msg) => {
            if open_k6 && classify_k6(case) {
                st.known(K6);
                return Ok(());
            }
            Err(Fail::new(msg, "osu", case.text().into_bytes()))
        }
    }
}

// ---- exhaustive alphabet ---------------------------------------------------
pub const ALPHA: &[&str] = &[
    "0,500,4,1,0,100,1,0",
    "10,500,4,1,0,100,1,0",
    "20,500,4,1,0,100,1,0",
    "0,1,4,2,0,100,1,0",
    "10,1,3,2,0,60,1,0",
    "20,100000,4,1,0,100,1,0",
    "10,500,4,2,1,50,1,9",
    "10,300,3,1,0,100,1,1",
    "0,-100,4,1,0,100,0,0",
    "10,-100,4,1,0,100,0,0",
    "20,-100,4,1,0,100,0,0",
    "0,-50,4,1,0,100,0,0",
    "10,-50,4,1,0,100,0,0",
    "20,-50,4,1,0,100,0,0",
    "10,-100,4,1,0,100,0,1",
    "10,-100,4,2,0,50,0,0",
    "20,-2000,4,1,0,100,0,0",
    "20,-5,4,1,0,120,0,8",
    "10,NaN,4,1,0,100,0,0",
    "10,NaN,4,1,0,100,1,0",
    "-5,500,4,1,0,100,1,0",
    "-5,-50,4,1,0,100,0,0",
    "0.00000000000000005,-50,4,1,0,100,0,0",
    "0.00000000000000005,400",
    "10,-200",
    "10,0,4,0,0,0,1,0",
    "20,-1000,4,3,2,5,0,1",
    "x,500,4,1,0,100,1,0",
    "10",
    "10,500,0x,1,0,100,1,0 // c",
    "0.0000000000000003,-50,4,1,0,100,0,0",
    "10.0000001,-50,4,1,0,100,0,1",
];

fn index_to_case(mut idx: u64, max_len: usize) -> Case {
    let mode = (idx % 4) as u8;
    idx /= 4;
    let k = ALPHA.len() as u64;
    let mut len = 0usize;
    let mut block = 1u64;
    while len <= max_len {
        if idx < block {
            break;
        }
        idx -= block;
        block *= k;
        len += 1;
    }
    let mut lines = Vec::with_capacity(len);
    for _ in 0..len {
        lines.push(ALPHA[(idx % k) as usize].to_string());
        idx /= k;
    }
    lines.reverse();
    Case { ver: 14, split: None, raw: None, mode, def_bank_line: "", def_vol_line: "", lines }
}

// ---- random generator ------------------------------------------------------
fn gen_line(t: &mut Tape, hostile: bool, neg_zero: bool, clock: &mut f64) -> String {
    // time: mostly from a small pool so that groups and replacements occur
    let time: String = match t.weighted(&[5, 3, 2, 1, if hostile { 2 } else { 0 }]) {
        0 => (*t.pick(&["0", "10", "20", "-5", "10", "0.00000000000000005", "10.5", "30", "10.0000001", "10.000000000000002", "0.0000000000000003", "0.0000000000000002", "10.0005", "20.000000000000004"])).to_string(),
        1 => {
            *clock += t.int(0, 8) as f64 * 125.0 / 4.0;
            format!("{clock}")
        }
        2 => (*t.pick(&[" 20 ", "1e1", "+10", "20.0", "010", "0.0"])).to_string(),
        3 => format!("{}", t.int(-2000, 200000) as f64 / 8.0),
        _ => {
            if t.chance(50) {
                crate::gen::doc::odd_number(t).to_string()
            } else {
                (*t.pick(&["x", "3000000000", "NaN", "", "inf", "-2147483648", "2147483647", "1e400"])).to_string()
            }
        }
    };
    let time = if neg_zero && t.chance(25) { "-0".to_string() } else { time };
    let bl: String = match t.weighted(&[6, 6, 2, if hostile { 2 } else { 0 }]) {
        0 => (*t.pick(&["500", "1", "100000", "0", "333.33", "6", "60000", "59999.5", "250", "1000", "2147483647", "2147483647.25", "2147483647.5", "2147483646.75"])).to_string(),
        1 => (*t.pick(&["-100", "-50", "-1000", "-2000", "-5", "-100", "-133.33", "-10", "-0.5", "-20000", "NaN", "-0", "-2147483647", "-2147483647.25", "-2147483647.5", "-199.99999999999997", "-200", "-200.00000000000003", "-100.00000000000001", "-99.99999999999999"])).to_string(),
        2 => (*t.pick(&[" 250 ", "5e2", "+400", "-1e2", "nan", "-NaN"])).to_string(),
        _ => {
            if t.chance(50) {
                crate::gen::doc::odd_number(t).to_string()
            } else {
                (*t.pick(&["abc", "3e9", "inf", "-inf", "", "-3e9", "1,5"])).to_string()
            }
        }
    };
    let nf = t.weighted(&[1, 1, 1, 1, 1, 1, 3, 6]);
    let fields: [String; 6] = [
        (*t.pick(if hostile { &["4", "3", "0", "05", "-1", "", "x", "7", " 5", "2147483648"][..] } else { &["4", "3", "7", "0", "05", "1"][..] })).to_string(),
        (*t.pick(if hostile { &["0", "1", "2", "3", "4", "-1", "x", "", " 2"][..] } else { &["0", "1", "2", "3", "4", "-1"][..] })).to_string(),
        (*t.pick(if hostile { &["0", "1", "2", "x", "-3", ""][..] } else { &["0", "1", "2", "5", "-3"][..] })).to_string(),
        (*t.pick(if hostile { &["100", "50", "0", "120", "-5", "x", ""][..] } else { &["100", "50", "0", "120", "-5", "5"][..] })).to_string(),
        (*t.pick(if hostile { &["1", "0", "1", "0", "", "01", "1x", "2", " 1"][..] } else { &["1", "0", "1", "0"][..] })).to_string(),
        (*t.pick(if hostile { &["0", "1", "8", "9", "x", " 1", "", "2", "-1"][..] } else { &["0", "1", "8", "9", "2", "-1"][..] })).to_string(),
    ];
    let mut l = format!("{time},{bl}");
    for f in fields.iter().take(nf.min(6)) {
        l.push(',');
        if hostile && t.chance(6) {
            // every field has its own parse and its own bound
            l.push_str(*t.pick(&["2147483647", "2147483648", "-2147483647", "-2147483648", "-2147483649", "4294967296", "99999999999", "1e1", "+1", "01", "1.0", "1.5", "-0", " 1", "1 ", "0x1", "", "3", "4", "5", "255", "256", "-1", "100", "101", "1000", "2147483649"]));
        } else {
            l.push_str(f);
        }
    }
    if nf == 7 && t.chance(10) {
        l.push_str(",extra");
    }
    if t.chance(5) {
        l.push_str(*t.pick(&[" // c", " // c", " //,2,7,40,0,1", " // a, b, c", "//,1", " // 1,2,3,4,5,6,7,8,9"]));
    }
    if hostile && t.chance(3) {
        l = (*t.pick(&["100", "", "// only a comment", "   ", ",", ",,"])).to_string();
    }
    l
}

pub fn gen_case(t: &mut Tape, neg_zero: bool) -> Case {
    let mode = t.below(4) as u8;
    let def_bank_line = t.pick(BANK_LINES).0;
    let def_vol_line = t.pick(VOL_LINES).0;
    let hostile = t.chance(40);
    let n = t.below(41);
    let mut clock = -(t.int(0, 8) as f64) * 250.0;
    let lines: Vec<String> = (0..n).map(|_| gen_line(t, hostile, neg_zero, &mut clock)).collect();
    let ver = *t.pick(&[14, 14, 14, 3, 5, 7, 8, 9, 12, 128, 6, 4, 10, 13]);
    let split = if t.chance(15) && !lines.is_empty() { Some((t.below(lines.len()), t.below(SPLITS.len()) as u8)) } else { None };
    Case { ver, split, raw: None, mode, def_bank_line, def_vol_line, lines }
}

pub fn run(ctx: &mut Ctx) {
    ctx.rule = "cases are [TimingPoints] line sequences under a [General] prefix (mode, default bank/volume). Exhaustive part: all sequences over a 32-line alphabet up to the stated length x 4 modes; random part: up to 40 lines from token pools (valid, boundary and hostile tokens, trailing fields omitted). Oracle: four lists of TimingPoints and of Beatmap bit-equal to the legacy model (refmodel::timing + ctrlpoints) plus independent invariants (strict order, clamps, NaN rules). Non-trivial = two accepted lines share a time, or a point was dropped as redundant / replaced (stored < 3 x accepted); distinct by construction (enumeration) or by text hash.".into();
    ctx.assumptions.push("meter field starting with '0' means 4; effects field is parsed without trimming; sample-set values outside 0..3 fall back to the [General] default (legacy behaviour, Appendix A.3)".into());
    ctx.assumptions.push("the time token -0 is generated only in the dedicated probe (known finding c12.negative_zero_time)".into());
    let open_k6 = ctx.open(K6);
    crate::props::replay_regress_generic(ctx, replay);

    let max_len = ctx.tier.pick(4usize, 5usize);
    let k = ALPHA.len() as u64;
    let mut total = 0u64;
    let mut b = 1u64;
    for _ in 0..=max_len {
        total += b;
        b *= k;
    }
    ctx.enumerate(&format!("line sequences over {k} kinds, length<={max_len}, x4 modes"), total * 4, |i, st| {
        let case = index_to_case(i, max_len);
        if i % 250_007 == 11 {
            st.sample(|| json!(case.text()));
        }
        verdict(open_k6, &case, st, true)
    });

    let cases = ctx.tier.pick(1_000_000u64, 8_000_000u64);
    ctx.pbt("c12-random", cases, 900, |t, st| {
        let case = gen_case(t, false);
        st.label(match case.lines.len() {
            0..=3 => "len 0-3",
            4..=15 => "len 4-15",
            _ => "len 16-40",
        });
        verdict(open_k6, &case, st, false)
    });

    let probe = ctx.tier.pick(4_000u64, 40_000u64);
    ctx.pbt("c12-probe-negzero", probe, 500, |t, st| {
        let case = gen_case(t, true);
        st.label("probe:-0 allowed");
        verdict(open_k6, &case, st, false)
    });
}

fn case_from_text(text: &str) -> Option<Case> {
    // the text of a regress / replay file: a [General] prefix and one or more [TimingPoints] parts
    use rosu_map::section::Section;
    let mut mode = 0u8;
    let ver: i32 = text.lines().next().and_then(|l| l.strip_prefix("osu file format v")).and_then(|v| v.trim().parse().ok()).unwrap_or(14);
    let mut bank = "";
    let mut vol = "";
    for l in text.lines() {
        if let Some(m) = l.strip_prefix("Mode: ") {
            mode = m.trim().parse().ok()?;
        } else if l.starts_with("SampleSet") {
            bank = BANK_LINES.iter().find(|(b, _)| b.trim_end() == l).map(|x| x.0)?;
        } else if l.starts_with("SampleVolume") {
            vol = VOL_LINES.iter().find(|(b, _)| b.trim_end() == l).map(|x| x.0)?;
        }
    }
    let fr = crate::refmodel::framing::frame(text);
    let lines: Vec<String> = fr.trace.iter().filter(|(s, _)| *s == Section::TimingPoints).map(|(_, l)| l.clone()).collect();
    Some(Case { ver, split: None, raw: Some(text.to_string()), mode, def_bank_line: bank, def_vol_line: vol, lines })
}

pub fn replay(ctx: &mut Ctx, ext: &str, bytes: &[u8]) -> Result<Option<String>, Fail> {
    let case = match ext {
        "tape" => gen_case(&mut Tape::new(bytes), true),
        _ => std::str::from_utf8(bytes)
            .ok()
            .and_then(case_from_text)
            .ok_or_else(|| Fail::new("cannot parse C12 case (expects the text layout the check writes)", "osu", bytes.to_vec()))?,
    };
    match evaluate(&case) {
        Ok(_) => Ok(None),
        Err(msg) => {
            if ctx.open(K6) && classify_k6(&case) {
                return Ok(Some(K6.to_string()));
            }
            Err(Fail::new(msg, "osu", case.text().into_bytes()))
        }
    }
}

/// hostile/valid line generator for other properties' documents
pub fn gen_line_pub(t: &mut Tape, hostile: bool, clock: &mut f64) -> String {
    gen_line(t, hostile, false, clock)
}

/// Text-level entry of the `grammar` fuzz target: three selector bytes ([General] prefix) and arbitrary text
/// as the body of [TimingPoints]. Ok(None) = held or outside the line-level domain, Ok(Some(key)) = known finding.
fn fuzz_case(sel: [u8; 3], text: &str) -> Option<Case> {
    use crate::refmodel::framing::frame;
    use rosu_map::section::Section;
    let case = Case {
        ver: [14, 14, 3, 7, 128][(sel[0] / 4) as usize % 5],
        split: None,
        raw: None,
        mode: sel[0] % 4,
        def_bank_line: BANK_LINES[sel[1] as usize % BANK_LINES.len()].0,
        def_vol_line: VOL_LINES[sel[2] as usize % VOL_LINES.len()].0,
        lines: text.split('\n').map(|l| l.to_string()).collect(),
    };
    let fr = frame(&case.text());
    let expect: Vec<&str> = case.lines.iter().map(|l| l.trim_end()).filter(|tl| !tl.is_empty() && !tl.trim_start().starts_with("//")).collect();
    let prefix = 1 + usize::from(!case.def_bank_line.is_empty()) + usize::from(!case.def_vol_line.is_empty());
    let same = fr.version == case.ver
        && fr.trace.len() == prefix + expect.len()
        && fr.trace[..prefix].iter().all(|(s, _)| *s == Section::General)
        && fr.trace[prefix..].iter().zip(&expect).all(|((s, l), e)| *s == Section::TimingPoints && l == e);
    same.then_some(case)
}

/// is the input inside the line-level domain (statistics only)
pub fn fuzz_domain(sel: [u8; 3], text: &str) -> Option<bool> {
    Some(fuzz_case(sel, text).is_some())
}

pub fn fuzz_text(sel: [u8; 3], text: &str, open_k6: bool) -> Result<Option<&'static str>, Fail> {
    let Some(case) = fuzz_case(sel, text) else { return Ok(None) };
    let file = case.text();
    match evaluate(&case) {
        Ok(_) => Ok(None),
        Err(msg) => {
            if open_k6 && classify_k6(&case) {
                return Ok(Some(K6));
            }
            Err(Fail::new(msg, "osu", file.into_bytes()))
        }
    }
}
