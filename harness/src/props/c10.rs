//! C10 - text encoding is transparent.

use crate::engine::*;
use crate::gen::corpus::*;
use crate::gen::doc::*;
use crate::oracle::cmp::full_diff;
use crate::refmodel::framing::{encode_text, Enc, ENCS};
use rosu_map::Beatmap;
use serde_json::json;

fn dec_bytes(b: &[u8]) -> Result<Beatmap, String> {
    rosu_map::from_bytes::<Beatmap>(b).map_err(|e| format!("from_bytes returned Err({e})"))
}
fn dec_str(s: &str) -> Result<Beatmap, String> {
    rosu_map::from_str::<Beatmap>(s).map_err(|e| format!("from_str returned Err({e})"))
}

/// decode a text as such: through UTF-8 *with* BOM, so that a text which itself starts with U+FEFF
/// (indistinguishable from a BOM in plain UTF-8) keeps that character
fn dec_text(text: &str) -> Result<Beatmap, String> {
    dec_bytes(&encode_text(text, Enc::Utf8Bom))
}

/// (a) the same text decodes to the same result in all four encodings
fn check_encodings(text: &str) -> Result<(), String> {
    let reference = dec_text(text)?;
    for enc in [Enc::Utf8, Enc::Utf16Le, Enc::Utf16Be] {
        if enc == Enc::Utf8 && text.starts_with('\u{feff}') {
            continue; // plain UTF-8 would read the text's first character as a BOM
        }
        let got = dec_bytes(&encode_text(text, enc))?;
        if let Some(d) = full_diff(&reference, &got) {
            return Err(format!("the text decodes differently as {} than as utf8-bom: {d}", enc.name()));
        }
    }
    Ok(())
}

/// (b) invalid UTF-8 is replaced exactly as lossy conversion would
fn check_utf8_lossy(bytes: &[u8]) -> Result<(), String> {
    let body = if bytes.starts_with(&[0xEF, 0xBB, 0xBF]) { &bytes[3..] } else { bytes };
    if body.starts_with(&[0xFF, 0xFE]) || body.starts_with(&[0xFE, 0xFF]) {
        return Ok(()); // would be read as UTF-16
    }
    let lossy = String::from_utf8_lossy(body);
    let got = dec_bytes(bytes)?;
    let want = if bytes.len() != body.len() { dec_text(&lossy)? } else { dec_str(&lossy)? };
    if let Some(d) = full_diff(&want, &got) {
        return Err(format!("bytes with invalid UTF-8 decode differently from their lossy conversion: {d}"));
    }
    Ok(())
}

/// (c) unpaired surrogates are replaced likewise; (d) a stray final byte changes nothing
fn check_utf16_lossy(units: &[u16], le: bool, tail: Option<u8>) -> Result<(), String> {
    let mut bytes: Vec<u8> = if le { vec![0xFF, 0xFE] } else { vec![0xFE, 0xFF] };
    for u in units {
        bytes.extend(if le { u.to_le_bytes() } else { u.to_be_bytes() });
    }
    if let Some(t) = tail {
        bytes.push(t);
    }
    let lossy = String::from_utf16_lossy(units);
    let got = dec_bytes(&bytes)?;
    let want = dec_text(&lossy)?;
    if let Some(d) = full_diff(&want, &got) {
        return Err(format!(
            "UTF-16{} input{} decodes differently from its lossy conversion: {d}",
            if le { "LE" } else { "BE" },
            tail.map_or(String::new(), |t| format!(" with a stray final byte {t:#04x}"))
        ));
    }
    Ok(())
}

/// the scalar sits at a position of its line that depends on its value (0..15 ASCII characters before it), so
/// that position-dependent decoding (blocks of 4 / 8 / 16 units) meets every scalar range at every offset
fn scalar_pad(c: char) -> &'static str {
    &"abcdefghijklmnop"[..(c as usize) % 16]
}
fn scalar_text(c: char) -> String {
    // (16 ASCII characters follow, so that the scalar is never in the last, incomplete block of its line)
    format!("osu file format v14\n\n[Metadata]\nTitle: {}a{c}bcdefghijklmnopq\nArtist: x\n\n[General]\nMode: 2\n", scalar_pad(c))
}

fn check_scalar(c: char) -> Result<(), String> {
    let text = scalar_text(c);
    let want = format!("{}a{c}bcdefghijklmnopq", scalar_pad(c));
    for enc in ENCS {
        let m = dec_bytes(&encode_text(&text, enc))?;
        // whitespace-class scalars in the middle of a value are kept; the value is only trimmed at its ends
        if m.title != want || m.artist != "x" || m.mode != rosu_map::section::general::GameMode::Catch {
            return Err(format!("U+{:04X} as {}: title {:?} (expected {:?}), artist {:?}, mode {:?}", c as u32, enc.name(), m.title, want, m.artist, m.mode));
        }
    }
    Ok(())
}

fn has_0a_unit(c: char) -> bool {
    let mut buf = [0u16; 2];
    c.encode_utf16(&mut buf).iter().any(|u| (u & 0xFF) == 0x0A || (u >> 8) == 0x0A)
}

const BAD_UTF8: &[&[u8]] = &[
    &[0x80],
    &[0xBF],
    &[0xC3],
    &[0xE4, 0xB8],
    &[0xF0, 0x9F, 0x8E],
    &[0xC0, 0xAF],
    &[0xE0, 0x80, 0xAF],
    &[0xED, 0xA0, 0x80],
    &[0xED, 0xB0, 0x80],
    &[0xFF],
    &[0xFE],
    &[0xF8, 0x88, 0x80, 0x80, 0x80],
    &[0xF4, 0x90, 0x80, 0x80],
    &[0xC3, 0x28],
    &[0xE2, 0x82],
    &[0xD1],
];

fn gen_text_for(t: &mut Tape) -> String {
    match t.weighted(&[5, 3, 2]) {
        0 => gen_accepted(t, Avoid::NONE, 5).text(),
        1 => gen_hostile(t, 4).text(),
        _ => head_lines(pick_text(t), 150),
    }
}

pub fn run(ctx: &mut Ctx) {
    ctx.rule = "cases: (a) generated / bundled texts (text pool rich in non-ASCII incl. scalars whose UTF-16 units contain byte 0x0A) x {UTF-8+BOM, UTF-16LE, UTF-16BE} against plain UTF-8; (b) the same bytes with random invalid-UTF-8 injections (stray continuation bytes, truncated 2/3/4-byte sequences, overlongs, encoded surrogates, 0xFE/0xFF, 5-byte forms) at random positions, against decode(String::from_utf8_lossy(bytes)); (c) UTF-16 unit streams with unpaired surrogates injected at random positions, against decode(String::from_utf16_lossy(units)); (d) a stray final byte (every value 0..=255) after UTF-16 input; (e) every Unicode scalar value as the middle character of a metadata value in all four encodings (the whole range in the thorough tier; in quick: all scalars with a UTF-16 unit containing byte 0x0A, all of Latin-1 and 50 000 others). Oracle: equality of the decoded Beatmap. Non-trivial = the text has a non-ASCII scalar or an invalid sequence; distinct by hash / by construction.".into();
    crate::props::replay_regress_generic(ctx, replay);

    // (e) scalar sweep
    let all: Vec<u32> = if ctx.tier == Tier::Thorough {
        (0..=0x10FFFFu32).filter(|c| char::from_u32(*c).is_some() && *c != 0x0A).collect()
    } else {
        let mut v: Vec<u32> = (0..=0x10FFFFu32).filter(|c| char::from_u32(*c).map_or(false, |ch| *c != 0x0A && (has_0a_unit(ch) || *c < 0x100 || (0x7F00..=0x8100).contains(c) || (0xD700..=0xD7FF).contains(c) || (0xE000..=0xE0FF).contains(c) || (0xFF00..=0xFFFF).contains(c) || (0x10000..=0x100FF).contains(c)))).collect();
        let mut x: u64 = 0x9E3779B97F4A7C15 ^ ctx.seed;
        for _ in 0..50_000 {
            x ^= x << 13;
            x ^= x >> 7;
            x ^= x << 17;
            let c = (x % 0x110000) as u32;
            if char::from_u32(c).is_some() && c != 0x0A {
                v.push(c);
            }
        }
        v.sort_unstable();
        v.dedup();
        v
    };
    ctx.enumerate(if ctx.tier == Tier::Thorough { "every Unicode scalar value (except LF) x 4 encodings" } else { "scalars with a 0x0A byte in a UTF-16 unit + Latin-1 + 50 000 pseudo-random scalars, x 4 encodings" }, all.len() as u64, |i, st| {
        let c = char::from_u32(all[i as usize]).unwrap();
        st.evals(4);
        if !c.is_ascii() {
            st.nontrivial_distinct();
        }
        if has_0a_unit(c) && i % 997 == 1 {
            st.sample(|| json!({"scalar": format!("U+{:04X}", c as u32), "text": scalar_text(c)}));
        }
        check_scalar(c).map_err(|m| Fail::new(m, "osu", encode_text(&scalar_text(c), Enc::Utf16Le)))
    });

    // (d) stray final byte, every value, on a few texts
    let texts: Vec<String> = small(2048).iter().take(12).map(|b| b.text.clone()).chain([scalar_text('\u{4e0a}'), "osu file format v14\n\n[Metadata]\nTitle: no newline at the end".to_string()]).collect();
    ctx.enumerate("stray final byte 0..=255 after UTF-16LE / UTF-16BE input", texts.len() as u64 * 512, |i, st| {
        let text = &texts[(i / 512) as usize];
        let le = (i / 256) % 2 == 0;
        let tail = (i % 256) as u8;
        let units: Vec<u16> = text.encode_utf16().collect();
        st.eval();
        st.nontrivial_distinct();
        check_utf16_lossy(&units, le, Some(tail)).map_err(|m| {
            let mut b = encode_text(text, if le { Enc::Utf16Le } else { Enc::Utf16Be });
            b.push(tail);
            Fail::new(m, "osu", b)
        })
    });

    let cases = ctx.tier.pick(400_000u64, 3_000_000u64);
    ctx.pbt("c10-random", cases, 2600, |t, st| {
        let text = gen_text_for(t);
        let mut text = text.trim_start_matches('\u{feff}').to_string();
        if t.chance(35) {
            // Unicode (non-ASCII) whitespace at line ends, before line starts and on lines of its own
            const WS: &[&str] = &["\u{a0}", "\u{3000}", "\u{2009}", "\u{85}", "\u{2028}", "\u{b}", "\u{c}", "\u{1680}", "\u{feff}", "\u{200b}"];
            let mut lines: Vec<String> = text.split('\n').map(|s| s.to_string()).collect();
            let n = 1 + t.below(4);
            for _ in 0..n {
                if lines.is_empty() {
                    break;
                }
                let i = t.below(lines.len());
                match t.below(3) {
                    0 => lines[i].push_str(*t.pick(WS)),
                    1 => lines.insert(i, (*t.pick(WS)).to_string()),
                    _ => lines[i] = format!("{}{}", t.pick(WS), lines[i]),
                }
            }
            text = lines.join("\n");
            // a text that starts with U+FEFF is indistinguishable from BOM + text
            text = text.trim_start_matches('\u{feff}').to_string();
            st.label("unicode whitespace injected");
        }
        st.eval();
        // (a)
        check_encodings(&text).map_err(|m| Fail::new(m, "osu", text.clone().into_bytes()))?;
        let mut nontrivial = !text.is_ascii();
        // (b)
        if t.chance(60) {
            let mut bytes = text.clone().into_bytes();
            let n = 1 + t.below(4);
            for _ in 0..n {
                let pos = t.below(bytes.len() + 1);
                let bad = *t.pick(BAD_UTF8);
                for (k, b) in bad.iter().enumerate() {
                    bytes.insert(pos + k, *b);
                }
            }
            if t.chance(20) {
                let mut w = vec![0xEF, 0xBB, 0xBF];
                w.extend_from_slice(&bytes);
                bytes = w;
            }
            st.label("invalid UTF-8 injected");
            nontrivial = true;
            check_utf8_lossy(&bytes).map_err(|m| Fail::new(m, "osu", bytes.clone()))?;
        }
        // (c)
        if t.chance(50) {
            let mut units: Vec<u16> = text.encode_utf16().collect();
            let n = 1 + t.below(4);
            for _ in 0..n {
                let pos = t.below(units.len() + 1);
                let s = match t.below(4) {
                    0 => 0xD800 + t.below(0x400) as u16,
                    1 => 0xDC00 + t.below(0x400) as u16,
                    2 => *t.pick(&[0xD80Au16, 0xDC0A, 0x0AD8, 0xD800, 0xDFFF, 0xDBFF]),
                    _ => 0xDC00,
                };
                units.insert(pos, s);
                // the unit right after (or before) an unpaired surrogate at the edges of the surrogate ranges
                if t.chance(30) {
                    let edge = *t.pick(&[0xE000u16, 0xD7FF, 0xFFFF, 0xFFFE, 0xFFFD, 0xFEFF, 0xDFFF, 0xDC00, 0xDBFF, 0xD800, 0x0000, 0x000A]);
                    let at = if t.chance(70) { pos + 1 } else { pos };
                    units.insert(at.min(units.len()), edge);
                }
            }
            let le = t.chance(50);
            let tail = if t.chance(25) { Some(t.byte()) } else { None };
            st.label("unpaired surrogate injected");
            nontrivial = true;
            check_utf16_lossy(&units, le, tail).map_err(|m| {
                let mut b: Vec<u8> = if le { vec![0xFF, 0xFE] } else { vec![0xFE, 0xFF] };
                for u in &units {
                    b.extend(if le { u.to_le_bytes() } else { u.to_be_bytes() });
                }
                if let Some(x) = tail {
                    b.push(x);
                }
                Fail::new(m, "osu", b)
            })?;
        }
        if text.chars().any(has_0a_unit) {
            st.label("text has a UTF-16 unit containing byte 0x0A");
        }
        if nontrivial {
            let fresh = st.nontrivial(hash64(&text));
            if fresh && text.len() < 700 && !text.is_ascii() {
                st.sample(|| json!(text));
            }
        }
        Ok(())
    });
    // scale: a metadata value of 4 K .. 200 K characters (multi-byte and astral fill, both parities of the
    // UTF-16 unit index), plain and with an invalid sequence / unpaired surrogate near a power-of-two offset
    let cases = ctx.tier.pick(160u64, 1_600u64);
    ctx.pbt("c10-long-lines", cases, 64, |t, st| {
        use crate::gen::doc::{long_fill, long_len};
        let n = long_len(t);
        let key = *t.pick(&["Tags: ", "TitleUnicode:", "ArtistUnicode: ", "Source:"]);
        let fill = long_fill(t, n);
        let text = format!("osu file format v14\n\n[Metadata]\nTitle:t\n{key}{fill}\nVersion:v\n\n[HitObjects]\n100,100,1000,1,0\n");
        st.eval();
        st.label("very long line");
        check_encodings(&text).map_err(|m| Fail::new(m, "osu", encode_text(&text, Enc::Utf16Le)))?;
        if !fill.is_ascii() {
            st.nontrivial(hash64(&text));
        }
        let near = |t: &mut Tape, len: usize| -> usize {
            let base = *t.pick(&[4096usize, 8192, 16384, 32768, 65536, 131072]);
            ((base as i64 + t.int(-6, 6)).max(0) as usize).min(len)
        };
        if t.chance(50) {
            let mut bytes = text.clone().into_bytes();
            let pos = near(t, bytes.len());
            let bad = *t.pick(BAD_UTF8);
            for (k, b) in bad.iter().enumerate() {
                bytes.insert(pos + k, *b);
            }
            st.label("invalid UTF-8 near a power-of-two offset");
            check_utf8_lossy(&bytes).map_err(|m| Fail::new(m, "osu", bytes.clone()))?;
        }
        if t.chance(50) {
            let mut units: Vec<u16> = text.encode_utf16().collect();
            let pos = near(t, units.len());
            units.insert(pos, *t.pick(&[0xD800u16, 0xDC00, 0xDBFF, 0xD80A, 0xDFFF]));
            let le = t.chance(50);
            st.label("unpaired surrogate near a power-of-two offset");
            check_utf16_lossy(&units, le, None).map_err(|m| {
                let mut b: Vec<u8> = if le { vec![0xFF, 0xFE] } else { vec![0xFE, 0xFF] };
                for u in &units {
                    b.extend(if le { u.to_le_bytes() } else { u.to_be_bytes() });
                }
                Fail::new(m, "osu", b)
            })?;
        }
        Ok(())
    });
}


pub fn replay(_ctx: &mut Ctx, ext: &str, bytes: &[u8]) -> Result<Option<String>, Fail> {
    if ext == "tape" {
        let text = gen_text_for(&mut Tape::new(bytes));
        return check_encodings(text.trim_start_matches('\u{feff}')).map(|_| None).map_err(|m| Fail::new(m, "osu", text.into_bytes()));
    }
    check_plain(bytes).map(|_| None).map_err(|m| Fail::new(m, "osu", bytes.to_vec()))
}

/// plain bytes: compare with the independent lossy conversion, then all encodings of that text
pub fn check_plain(bytes: &[u8]) -> Result<(), String> {
    let text = crate::refmodel::framing::decode_bytes(bytes);
    let got = dec_bytes(bytes)?;
    // (a BOM-less input keeps its meaning as plain UTF-8; with a BOM the text is what follows it)
    let has_bom = bytes.starts_with(&[0xEF, 0xBB, 0xBF]) || bytes.starts_with(&[0xFF, 0xFE]) || bytes.starts_with(&[0xFE, 0xFF]);
    let want = if has_bom { dec_text(&text)? } else { dec_str(&text)? };
    if let Some(d) = full_diff(&want, &got) {
        return Err(format!("bytes decode differently from their lossy text: {d}"));
    }
    check_encodings(&text)
}
