//! C02 - decode -> encode -> decode returns the same map.

use crate::engine::*;
use crate::gen::corpus::*;
use crate::gen::doc::*;
use crate::oracle::roundtrip::*;
use crate::refmodel::framing::{frame, split_lines};
use rosu_map::section::general::GameMode;
use rosu_map::section::hit_objects::{CurveBuffers, HitObjectKind, PathControlPoint};
use rosu_map::section::Section;
use rosu_map::Beatmap;
use serde_json::json;

pub const K1: &str = "c02.comment_marker_in_file_name";
pub const K2: &str = "c02.scroll_speed_below_sv_clamp";
pub const K3: &str = "c02.natural_length_above_limit";
pub const K4: &str = "c02.mode_after_timing_or_objects";
pub const K5: &str = "c02.degenerate_duplicate_control_points";
pub const K9: &str = "c02.sample_file_name_trailing_whitespace";
pub const K11: &str = "c02.control_point_times_equal_but_not_identical";
pub const K12: &str = "c02.node_sample_file_name";
pub const ALL_K: [&str; 8] = [K1, K2, K3, K4, K5, K9, K11, K12];

pub struct Open {
    pub k: [bool; 8],
}
impl Open {
    pub fn from_ctx(ctx: &Ctx) -> Self {
        Open { k: [ctx.open(K1), ctx.open(K2), ctx.open(K3), ctx.open(K4), ctx.open(K5), ctx.open(K9), ctx.open(K11), ctx.open(K12)] }
    }
    fn is(&self, key: &str) -> bool {
        ALL_K.iter().position(|k| *k == key).map_or(false, |i| self.k[i])
    }
}

pub enum Judgement {
    Pass { nontrivial: bool, labels: Vec<&'static str>, excluded_catmull: u32 },
    Known { keys: Vec<&'static str> },
    Excluded(&'static str),
    Fail(String),
}

fn decode(text: &str) -> Result<Beatmap, String> {
    rosu_map::from_str::<Beatmap>(text).map_err(|e| format!("decode error {e}"))
}
fn encode(m: &Beatmap) -> Result<String, String> {
    m.clone().encode_to_string().map_err(|e| format!("encode error {e}"))
}

/// K5 shapes in a control-point list. Determined empirically on the pinned tree (harness/examples/k5sig.rs:
/// 400 k generated documents, no failing list outside the predicate, 73 % of the lists inside it fail) and
/// stated in terms of the format's idiom: a segment start whose type equals the previous segment's (and is not
/// a perfect curve) is written as a *duplicated point* unless it is the last point or the two points before it
/// already coincide. That implicit form is ambiguous when the typed point itself repeats its predecessor, or
/// when the next point is typed too (one-point segment). Lists with a Catmull segment keep the wider rule
/// (any repeated position / inner adjacent typed points): the decoder also splits Catmull runs at duplicates.
pub fn k5_shape(c: &[PathControlPoint]) -> bool {
    use rosu_map::section::hit_objects::SplineType;
    if c.iter().any(|p| p.path_type.map_or(false, |t| t.kind == SplineType::Catmull)) {
        let a_eq = c.windows(2).any(|w| w[0].pos == w[1].pos);
        let b_tt = c.windows(2).enumerate().any(|(j, w)| j >= 1 && w[0].path_type.is_some() && w[1].path_type.is_some());
        return a_eq || b_tt;
    }
    let implicit = |i: usize| -> bool {
        let Some(t) = c[i].path_type else { return false };
        let last = c[..i].iter().rev().find_map(|p| p.path_type);
        if Some(t) != last || t.kind == SplineType::PerfectCurve || i == c.len() - 1 {
            return false;
        }
        !(i > 1 && c[i - 1].pos.x as i32 == c[i - 2].pos.x as i32 && c[i - 1].pos.y as i32 == c[i - 2].pos.y as i32)
    };
    (1..c.len()).any(|i| implicit(i) && (c[i].pos == c[i - 1].pos || (i + 1 < c.len() && c[i + 1].path_type.is_some())))
}

fn dedup_positions(c: &[PathControlPoint]) -> Vec<(u32, u32)> {
    let mut v: Vec<(u32, u32)> = vec![];
    for cp in c {
        let t = (cp.pos.x.to_bits(), cp.pos.y.to_bits());
        if v.last() != Some(&t) {
            v.push(t);
        }
    }
    v
}

/// K9: a sample file name that ends in whitespace is written at the end of its line, where the
/// reader trims it
fn file_name_trailing_ws(m1: &Beatmap, m2: &Beatmap, i: usize) -> bool {
    use rosu_map::section::hit_objects::hit_samples::HitSampleInfoName as N;
    let (a, b) = (&m1.hit_objects[i].samples, &m2.hit_objects[i].samples);
    if a.len() != b.len() {
        return false;
    }
    let mut hit = false;
    for (x, y) in a.iter().zip(b) {
        match (&x.name, &y.name) {
            (N::File(f), N::File(g)) if f != g => {
                if f.trim_end() == g && f.trim_end() != f {
                    hit = true;
                } else {
                    return false;
                }
            }
            (N::File(f), N::Default(_)) => {
                if f.trim_end().is_empty() && !f.is_empty() {
                    hit = true;
                } else {
                    return false;
                }
            }
            (p, q) if p == q && x.bank == y.bank => {}
            _ => return false,
        }
    }
    hit
}

/// K12: a slider node whose edge-set field carries a sample file name (`b:a:c:v:name`): the decoder turns
/// it into a file sample, the encoder writes `b:a` only, and the node comes back with a default sample
fn node_file_name_lost(m1: &Beatmap, m2: &Beatmap, i: usize) -> bool {
    use rosu_map::section::hit_objects::hit_samples::HitSampleInfoName as N;
    let (HitObjectKind::Slider(p), HitObjectKind::Slider(q)) = (&m1.hit_objects[i].kind, &m2.hit_objects[i].kind) else { return false };
    if p.node_samples.len() != q.node_samples.len() {
        return false;
    }
    let mut hit = false;
    for (a, b) in p.node_samples.iter().zip(&q.node_samples) {
        if a.len() != b.len() {
            return false;
        }
        for (j, (x, y)) in a.iter().zip(b).enumerate() {
            match (&x.name, &y.name) {
                (N::File(f), N::Default(n)) if j == 0 && !f.is_empty() && *n == rosu_map::section::hit_objects::hit_samples::HitSampleDefaultName::Normal => hit = true,
                (u, v) if u == v && x.bank == y.bank => {}
                _ => return false,
            }
        }
    }
    hit
}

/// chronological order of the accepted timing / hit-object lines (the property's domain)
pub fn chronological(text: &str) -> bool {
    let fr = frame(text);
    let rej = crate::refmodel::framing::rejected_in_trace(fr.version, &fr.trace);
    let mut last_tp = f64::NEG_INFINITY;
    let mut last_ho = f64::NEG_INFINITY;
    for ((sec, line), r) in fr.trace.iter().zip(rej) {
        if r {
            continue;
        }
        let l = line.find("//").map_or(line.as_str(), |i| &line[..i]);
        let field = |k: usize| l.split(',').nth(k).and_then(|s| s.trim().parse::<f64>().ok());
        match sec {
            Section::TimingPoints => {
                if let Some(t) = field(0) {
                    if t < last_tp {
                        return false;
                    }
                    last_tp = t;
                }
            }
            Section::HitObjects => {
                if let Some(t) = field(2) {
                    if t < last_ho {
                        return false;
                    }
                    last_ho = t;
                }
            }
            _ => {}
        }
    }
    true
}

/// K4 predicate: a `Mode` record of [General] follows a timing-point or hit-object line
fn mode_after_timing_or_objects(text: &str) -> bool {
    let fr = frame(text);
    let mut seen = false;
    for (sec, line) in &fr.trace {
        match sec {
            Section::TimingPoints | Section::HitObjects => seen = true,
            Section::General if seen => {
                if line.split(':').next().map(str::trim) == Some("Mode") {
                    return true;
                }
            }
            _ => {}
        }
    }
    false
}

/// move every [General] record in front of everything else
fn hoist_general(text: &str) -> String {
    let fr = frame(text);
    let lines = split_lines(text);
    let mut general = vec![];
    let mut drop = vec![false; lines.len()];
    for ((sec, line), idx) in fr.trace.iter().zip(&fr.trace_lines) {
        if *sec == Section::General {
            general.push(line.clone());
            drop[*idx] = true;
        }
    }
    let mut out = String::new();
    let first_header = fr.first_header_line.unwrap_or(0);
    for (i, l) in lines.iter().enumerate() {
        if i == first_header {
            out.push_str("[General]\n");
            for g in &general {
                out.push_str(g);
                out.push('\n');
            }
        }
        if !drop[i] {
            out.push_str(l);
            out.push('\n');
        }
    }
    out
}

fn nontrivial_map(m1: &Beatmap, e: &str, default_enc: &str) -> bool {
    let cp = &m1.control_points;
    let has_cp = !cp.timing_points.is_empty() || !cp.difficulty_points.is_empty() || !cp.effect_points.is_empty() || !cp.sample_points.is_empty();
    if m1.hit_objects.is_empty() || !has_cp {
        return false;
    }
    let dl: std::collections::HashSet<&str> = default_enc.lines().collect();
    e.lines().filter(|l| !dl.contains(l)).count() >= 5
}

pub fn default_encoding() -> String {
    Beatmap::default().encode_to_string().unwrap()
}

/// the core: compare M1 with decode(encode(M1)), explaining differences by open known findings
fn judge_map(m1: &Beatmap, open: &Open, known: &mut Vec<&'static str>, default_enc: &str) -> Result<(bool, Vec<&'static str>, u32), String> {
    let mut m1 = m1.clone();
    // K3: sliders without a requested length whose natural length exceeds the decoder's limit
    let mut bufs = CurveBuffers::default();
    let mut k3_idx = vec![];
    for (i, h) in m1.hit_objects.iter_mut().enumerate() {
        if let HitObjectKind::Slider(s) = &mut h.kind {
            if s.path.expected_dist().is_none() && s.path.curve_with_bufs(&mut bufs).dist() > 131072.0 {
                k3_idx.push(i);
            }
        }
    }
    if !k3_idx.is_empty() {
        if !open.is(K3) {
            return Err(format!("slider {} has no requested length and a natural length above 131072: the written length exceeds the decoder's limit and the object is lost", k3_idx[0]));
        }
        known.push(K3);
        // neighbouring map: the same sliders with a requested length the format can carry
        for &i in &k3_idx {
            if let HitObjectKind::Slider(sl) = &mut m1.hit_objects[i].kind {
                *sl.path.expected_dist_mut() = Some(1000.0);
            }
        }
    }
    let e = encode(&m1)?;
    let mut m2 = decode(&e)?;
    let mut m1c = m1.clone();
    let diffs = compare(&mut m1c, &mut m2, &Opts { curves: true });
    let mut labels = vec![];
    let mut excluded_catmull = 0;
    let k5_objs: Vec<usize> = diffs
        .iter()
        .filter(|d| d.kind == DiffKind::ControlPoints)
        .filter_map(|d| d.obj)
        .collect();
    for d in &diffs {
        let explained: Option<&'static str> = match &d.kind {
            DiffKind::Field("audio_file") if m1.audio_file.contains("//") && m2.audio_file == m1.audio_file.split("//").next().unwrap().trim_end() => Some(K1),
            DiffKind::Field("background_file") if m1.background_file.contains("//") && m2.background_file == m1.background_file.split("//").next().unwrap().trim_end().trim_matches('"') => Some(K1),
            DiffKind::ScrollTimeline { a, b, .. } if matches!(m1.mode, GameMode::Taiko | GameMode::Mania) && *a < 0.1 && *b == 0.1 => Some(K2),
            DiffKind::ControlPoints => {
                let i = d.obj.unwrap();
                let (HitObjectKind::Slider(p), HitObjectKind::Slider(q)) = (&m1.hit_objects[i].kind, &m2.hit_objects[i].kind) else { unreachable!() };
                let c = p.path.control_points();
                if has_consecutive_catmull(c) {
                    excluded_catmull += 1;
                    continue; // excluded by the statement
                }
                if k5_shape(c) && dedup_positions(c) == dedup_positions(q.path.control_points()) {
                    Some(K5)
                } else {
                    None
                }
            }
            DiffKind::Samples if file_name_trailing_ws(&m1, &m2, d.obj.unwrap()) => Some(K9),
            DiffKind::NodeSamples if node_file_name_lost(&m1, &m2, d.obj.unwrap()) => Some(K12),
            // consequences of a K5 path difference on the same object: its end time moves, so the
            // sample point that supplies default banks can be another one
            DiffKind::Samples | DiffKind::NodeSamples if d.obj.map_or(false, |i| k5_objs.contains(&i)) && open.is(K5) => Some(K5),
            _ => None,
        };
        match explained {
            Some(key) if open.is(key) => {
                if !known.contains(&key) {
                    known.push(key);
                }
            }
            _ => {
                return Err(format!(
                    "{:?}{}: {}\n--- encoded text ---\n{}",
                    d.kind,
                    d.obj.map_or(String::new(), |i| format!(" (hit object {i})")),
                    d.detail,
                    e.chars().take(3000).collect::<String>()
                ));
            }
        }
    }
    if m1.mode != GameMode::Osu {
        labels.push("mode != osu");
    }
    if m1.format_version < 8 {
        labels.push("version < 8");
    }
    if !m1.breaks.is_empty() {
        labels.push("has break");
    }
    let mut multiseg = false;
    let mut filesample = false;
    for h in &m1.hit_objects {
        if let HitObjectKind::Slider(s) = &h.kind {
            if s.path.control_points().iter().filter(|c| c.path_type.is_some()).count() > 1 {
                multiseg = true;
            }
        }
        if h.samples.iter().any(|s| matches!(s.name, rosu_map::section::hit_objects::hit_samples::HitSampleInfoName::File(_))) {
            filesample = true;
        }
    }
    if multiseg {
        labels.push("multi-segment slider");
    }
    if filesample {
        labels.push("file sample");
    }
    Ok((nontrivial_map(&m1, &e, default_enc), labels, excluded_catmull))
}

pub fn judge(text: &str, open: &Open, default_enc: &str) -> Judgement {
    if !chronological(text) {
        return Judgement::Excluded("non_chronological");
    }
    let m1 = match decode(text) {
        Ok(m) => m,
        Err(e) => return Judgement::Fail(e),
    };
    if crate::props::c01::predicted_events(&m1) > 2.0e6 {
        return Judgement::Excluded("heavy");
    }
    let mut known = vec![];
    match judge_map(&m1, open, &mut known, default_enc) {
        Ok((nontrivial, labels, excluded_catmull)) => {
            if known.is_empty() {
                Judgement::Pass { nontrivial, labels, excluded_catmull }
            } else {
                Judgement::Known { keys: known }
            }
        }
        Err(msg) => {
            // input-side findings: the file is rewritten without the finding's shape ("the neighbouring input")
            // and judged again; hostile files can combine several, so the rewrites are also chained.
            //   K4: the mode is declared after timing points / hit objects -> [General] records hoisted
            //   K11: timing-point times that are "the same time" without being the identical float
            //        (-0 next to 0, or two times closer than f64::EPSILON) -> snapped to the first spelling
            let mut cur = text.to_string();
            let mut applied: Vec<&'static str> = vec![];
            for pass in 0..2 {
                for key in [K4, K11] {
                    if !open.is(key) || applied.contains(&key) {
                        continue;
                    }
                    // first pass: each rewrite alone on the original; second pass: cumulative
                    let base = if pass == 0 { text.to_string() } else { cur.clone() };
                    let next = match key {
                        k if k == K4 => mode_after_timing_or_objects(&base).then(|| hoist_general(&base)),
                        _ => snap_close_times(&base),
                    };
                    let Some(next) = next else { continue };
                    if let Ok(mn) = decode(&next) {
                        let mut k2 = vec![];
                        if judge_map(&mn, open, &mut k2, default_enc).is_ok() {
                            let mut keys = if pass == 0 { vec![key] } else { let mut a = applied.clone(); a.push(key); a };
                            keys.extend(k2);
                            return Judgement::Known { keys };
                        }
                    }
                    if pass == 1 {
                        applied.push(key);
                        cur = next;
                    }
                }
            }
            Judgement::Fail(msg)
        }
    }
}

/// rewrite the time field of accepted [TimingPoints] lines so that times within f64::EPSILON of an
/// earlier time (incl. -0 vs 0) become that earlier time's text; None if nothing changes
fn snap_close_times(text: &str) -> Option<String> {
    let fr = frame(text);
    let rej = crate::refmodel::framing::rejected_in_trace(fr.version, &fr.trace);
    let lines = split_lines(text);
    let mut seen: Vec<(f64, String)> = vec![];
    let mut out: Vec<String> = lines.iter().map(|l| l.to_string()).collect();
    let mut changed = false;
    for (((sec, line), r), idx) in fr.trace.iter().zip(rej).zip(&fr.trace_lines) {
        if r {
            continue;
        }
        if *sec == Section::HitObjects {
            // an object time of -0 sorts before an object at 0 (total_cmp), which reorders the two
            let f: Vec<&str> = line.split(',').collect();
            if f.len() > 2 && f[2].trim().parse::<f64>().map_or(false, |t| t == 0.0 && t.is_sign_negative()) {
                let mut g: Vec<String> = f.iter().map(|x| x.to_string()).collect();
                g[2] = "0".into();
                out[*idx] = g.join(",");
                changed = true;
            }
            continue;
        }
        if *sec != Section::TimingPoints {
            continue;
        }
        let Some((tf, rest)) = line.split_once(',') else { continue };
        let Ok(t) = tf.trim().parse::<f64>() else { continue };
        let t_norm = if t == 0.0 { 0.0 } else { t };
        if let Some((t0, txt0)) = seen.iter().find(|(t0, _)| (t0 - t_norm).abs() < f64::EPSILON) {
            if t0.to_bits() != t.to_bits() {
                out[*idx] = format!("{txt0},{rest}");
                changed = true;
            }
        } else {
            if t.to_bits() != t_norm.to_bits() {
                out[*idx] = format!("0,{rest}");
                changed = true;
            }
            seen.push((t_norm, if t.to_bits() != t_norm.to_bits() { "0".to_string() } else { tf.to_string() }));
        }
    }
    if changed {
        Some(out.join("\n") + "\n")
    } else {
        None
    }
}

fn gen_text_case(t: &mut Tape, avoid: Avoid) -> (String, &'static str) {
    // scale / geometry (about 0.5 % of the cases): very long lines, very many lines, big sliders, hostile geometry
    if t.chance(1) && t.chance(50) {
        return crate::gen::doc::gen_scale_doc(t);
    }
    match t.weighted(&[7, 3]) {
        0 => (gen_accepted(t, avoid, 8).text(), "generated"),
        _ => {
            // field-level mutation of a bundled map (kept only if still chronological)
            let base = pick_text(t);
            (mutate_text(t, base), "mutated-bundled")
        }
    }
}

fn record(j: Judgement, text: &str, family: &str, st: &mut Stats) -> CaseResult {
    st.eval();
    match j {
        Judgement::Pass { nontrivial, labels, excluded_catmull } => {
            st.label(&format!("family:{family}"));
            for l in labels {
                st.label(l);
            }
            if excluded_catmull > 0 {
                st.add_extra_u64("sliders_skipped_consecutive_catmull", excluded_catmull as u64);
            }
            if nontrivial {
                let fresh = st.nontrivial(hash64(text));
                if fresh && text.len() < 1500 {
                    st.sample(|| json!(text));
                }
            }
            Ok(())
        }
        Judgement::Known { keys } => {
            for k in keys {
                st.known(k);
            }
            Ok(())
        }
        Judgement::Excluded(why) => {
            st.exclude(why);
            Ok(())
        }
        Judgement::Fail(m) => Err(Fail::new(m, "osu", text.as_bytes().to_vec())),
    }
}

pub fn run(ctx: &mut Ctx) {
    ctx.rule = "cases are .osu texts: accepted-mode documents from the structured generator (every section, 4 modes, versions 3..128, all object kinds, multi-segment paths of every type, same-time timing groups, extreme multipliers, optional trailing fields, boundary numerics, fractional times; chronological by construction) and line/field mutations of the bundled maps (kept only if timing/object lines stay chronological, otherwise Excluded), plus all bundled maps. Oracle: M1=decode(x), M2=decode(encode(M1)); field-by-field comparison as the statement enumerates (general, editor, metadata incl. positive ids, difficulty, background, breaks, colours, timing_points exact, effective slider-velocity / kiai / scroll-speed step functions, per object: count, start time, kind, position, combo, control points, repeats, velocity (REL 1e-9), curve path (exact) and lengths (REL), durations (REL), node count, (name, bank) of all samples). Non-trivial = M1 has >= 1 hit object and >= 1 control point and its encoding differs from the default map's in >= 5 lines; distinct by text hash.".into();
    ctx.assumptions.push("excluded exactly as the statement says: default sample bank/volume, non-positive ids and countdown offset, special style outside mania, per-sample volume / custom index / suffix / layering, generate_ticks, and the path comparison of sliders with consecutive explicit Catmull segments (counted)".into());
    ctx.assumptions.push("open known findings are excluded by construction in the main search (generator switches) and hit on purpose in the probe runs".into());
    let open = Open::from_ctx(ctx);
    let denc = default_encoding();
    crate::props::replay_regress_generic(ctx, replay);

    let files = bundled();
    ctx.enumerate("every bundled map", files.len() as u64, |i, st| {
        let text = &files[i as usize].text;
        let j = judge(text, &open, &denc);
        if let Judgement::Pass { nontrivial: true, .. } = j {
            st.nontrivial_distinct();
        }
        match j {
            Judgement::Pass { .. } => {
                st.eval();
                Ok(())
            }
            other => record(other, text, "bundled", st),
        }
    });

    let cases = ctx.tier.pick(700_000u64, 5_000_000u64);
    ctx.pbt("c02-random", cases, 2500, |t, st| {
        let (text, family) = gen_text_case(t, Avoid::ALL);
        let j = judge(&text, &open, &denc);
        record(j, &text, family, st)
    });

    // probes: one switch off at a time - the known findings must still be reachable, and nothing else may appear
    let probe = ctx.tier.pick(20_000u64, 150_000u64);
    for (i, key) in [K1, K2, K3, K4, K5, K12].iter().enumerate() {
        let mut av = Avoid::ALL;
        match i {
            0 => av.k1 = false,
            1 => av.k2 = false,
            2 => av.k3 = false,
            3 => av.k4 = false,
            4 => av.k5 = false,
            _ => av.k12 = false,
        }
        ctx.pbt(&format!("c02-probe-{key}"), probe, 2500, |t, st| {
            let text = gen_accepted(t, av, 8).text();
            st.label("probe (one avoid-switch off)");
            let j = judge(&text, &open, &denc);
            record(j, &text, "probe", st)
        });
    }
}

pub fn replay(ctx: &mut Ctx, ext: &str, bytes: &[u8]) -> Result<Option<String>, Fail> {
    let text = if ext == "tape" { gen_text_case(&mut Tape::new(bytes), Avoid::ALL).0 } else { crate::refmodel::framing::decode_bytes(bytes) };
    let open = Open::from_ctx(ctx);
    match judge(&text, &open, &default_encoding()) {
        Judgement::Pass { .. } | Judgement::Excluded(_) => Ok(None),
        Judgement::Known { keys } => Ok(Some(keys[0].to_string())),
        Judgement::Fail(m) => Err(Fail::new(m, "osu", text.into_bytes())),
    }
}
