//! C03 - edits to a decoded map survive encode -> decode.

use crate::engine::*;
use crate::gen::doc::*;
use crate::oracle::roundtrip::*;
use rosu_map::section::colors::{Color, CustomColor};
use rosu_map::section::events::BreakPeriod;
use rosu_map::section::general::{CountdownType, GameMode};
use rosu_map::section::hit_objects::HitObjectKind;
use rosu_map::Beatmap;
use serde_json::{json, Value};

#[derive(Clone, Debug)]
pub enum Edit {
    Text(&'static str, String),
    AudioFile(String),
    Background(String),
    I32(&'static str, i32),
    LeadIn(i32),
    F32(&'static str, f32),
    F64(&'static str, f64),
    Flag(&'static str, bool),
    Mode(u8),
    Countdown(u8),
    Bookmarks(Vec<i32>),
    ComboColours(Vec<[u8; 3]>),
    NamedColours(Vec<(String, [u8; 3])>),
    Breaks(Vec<(f64, f64)>),
}

fn mode_of(m: u8) -> GameMode {
    [GameMode::Osu, GameMode::Taiko, GameMode::Catch, GameMode::Mania][m as usize % 4]
}
fn countdown_of(c: u8) -> CountdownType {
    [CountdownType::None, CountdownType::Normal, CountdownType::HalfSpeed, CountdownType::DoubleSpeed][c as usize % 4]
}

impl Edit {
    fn name(&self) -> &'static str {
        match self {
            Edit::Text(n, _) | Edit::I32(n, _) | Edit::F32(n, _) | Edit::F64(n, _) | Edit::Flag(n, _) => n,
            Edit::AudioFile(_) => "audio_file",
            Edit::Background(_) => "background_file",
            Edit::LeadIn(_) => "audio_lead_in",
            Edit::Mode(_) => "mode",
            Edit::Countdown(_) => "countdown",
            Edit::Bookmarks(_) => "bookmarks",
            Edit::ComboColours(_) => "custom_combo_colors",
            Edit::NamedColours(_) => "custom_colors",
            Edit::Breaks(_) => "breaks",
        }
    }
    fn to_json(&self) -> Value {
        json!({"field": self.name(), "value": format!("{:?}", self)})
    }
    fn apply(&self, m: &mut Beatmap) {
        match self {
            Edit::Text(n, v) => {
                let v = v.clone();
                match *n {
                    "title" => m.title = v,
                    "title_unicode" => m.title_unicode = v,
                    "artist" => m.artist = v,
                    "artist_unicode" => m.artist_unicode = v,
                    "creator" => m.creator = v,
                    "version" => m.version = v,
                    "source" => m.source = v,
                    _ => m.tags = v,
                }
            }
            Edit::AudioFile(v) => m.audio_file = v.clone(),
            Edit::Background(v) => m.background_file = v.clone(),
            Edit::I32(n, v) => match *n {
                "preview_time" => m.preview_time = *v,
                "beatmap_id" => m.beatmap_id = *v,
                "beatmap_set_id" => m.beatmap_set_id = *v,
                "countdown_offset" => m.countdown_offset = *v,
                "beat_divisor" => m.beat_divisor = *v,
                _ => m.grid_size = *v,
            },
            Edit::LeadIn(v) => m.audio_lead_in = f64::from(*v),
            Edit::F32(n, v) => match *n {
                "stack_leniency" => m.stack_leniency = *v,
                "hp_drain_rate" => m.hp_drain_rate = *v,
                "circle_size" => m.circle_size = *v,
                "overall_difficulty" => m.overall_difficulty = *v,
                _ => m.approach_rate = *v,
            },
            Edit::F64(n, v) => match *n {
                "distance_spacing" => m.distance_spacing = *v,
                "timeline_zoom" => m.timeline_zoom = *v,
                "slider_multiplier" => m.slider_multiplier = *v,
                _ => m.slider_tick_rate = *v,
            },
            Edit::Flag(n, v) => match *n {
                "letterbox_in_breaks" => m.letterbox_in_breaks = *v,
                "widescreen_storyboard" => m.widescreen_storyboard = *v,
                "epilepsy_warning" => m.epilepsy_warning = *v,
                "samples_match_playback_rate" => m.samples_match_playback_rate = *v,
                _ => m.special_style = *v,
            },
            Edit::Mode(v) => m.mode = mode_of(*v),
            Edit::Countdown(v) => m.countdown = countdown_of(*v),
            Edit::Bookmarks(v) => m.bookmarks = v.clone(),
            Edit::ComboColours(v) => m.custom_combo_colors = v.iter().map(|c| Color::new(c[0], c[1], c[2], 255)).collect(),
            Edit::NamedColours(v) => m.custom_colors = v.iter().map(|(n, c)| CustomColor { name: n.clone(), color: Color::new(c[0], c[1], c[2], 255) }).collect(),
            Edit::Breaks(v) => m.breaks = v.iter().map(|(a, b)| BreakPeriod { start_time: *a, end_time: *b }).collect(),
        }
    }
    /// does the re-read map show exactly the edited value?
    fn holds(&self, r: &Beatmap, edited: &Beatmap) -> Result<(), String> {
        macro_rules! same {
            ($f:ident) => {
                if r.$f != edited.$f {
                    return Err(format!("{} was set to {:?} but reads back as {:?}", stringify!($f), edited.$f, r.$f).chars().take(500).collect());
                }
            };
        }
        match self.name() {
            "title" => same!(title),
            "title_unicode" => same!(title_unicode),
            "artist" => same!(artist),
            "artist_unicode" => same!(artist_unicode),
            "creator" => same!(creator),
            "version" => same!(version),
            "source" => same!(source),
            "tags" => same!(tags),
            "audio_file" => same!(audio_file),
            "background_file" => same!(background_file),
            "preview_time" => same!(preview_time),
            "beatmap_id" => same!(beatmap_id),
            "beatmap_set_id" => same!(beatmap_set_id),
            "countdown_offset" => same!(countdown_offset),
            "beat_divisor" => same!(beat_divisor),
            "grid_size" => same!(grid_size),
            "audio_lead_in" => same!(audio_lead_in),
            "stack_leniency" => same!(stack_leniency),
            "hp_drain_rate" => same!(hp_drain_rate),
            "circle_size" => same!(circle_size),
            "overall_difficulty" => same!(overall_difficulty),
            "approach_rate" => same!(approach_rate),
            "distance_spacing" => same!(distance_spacing),
            "timeline_zoom" => same!(timeline_zoom),
            "slider_multiplier" => same!(slider_multiplier),
            "slider_tick_rate" => same!(slider_tick_rate),
            "letterbox_in_breaks" => same!(letterbox_in_breaks),
            "widescreen_storyboard" => same!(widescreen_storyboard),
            "epilepsy_warning" => same!(epilepsy_warning),
            "samples_match_playback_rate" => same!(samples_match_playback_rate),
            "special_style" => {
                if edited.mode == GameMode::Mania {
                    same!(special_style)
                }
            }
            "mode" => same!(mode),
            "countdown" => same!(countdown),
            "bookmarks" => same!(bookmarks),
            "custom_combo_colors" => same!(custom_combo_colors),
            "custom_colors" => same!(custom_colors),
            "breaks" => same!(breaks),
            _ => {}
        }
        Ok(())
    }
}

/// any text without line breaks and without surrounding whitespace
fn gen_free_text(t: &mut Tape) -> String {
    let mut s = String::new();
    let n = t.below(5);
    for _ in 0..n {
        match t.below(6) {
            0..=3 => s.push_str(*t.pick(TEXT_POOL)),
            4 => s.push_str(*t.pick(&["//", "// c", ":", "::", "\\", "\"", ",", "|", "[", "]", "#", "\t", "  ", "\u{feff}", "\u{0}", "\u{2028}", "'"])),
            _ => {
                let c = char::from_u32(t.int(0x20, 0x2FFF) as u32).unwrap_or('x');
                s.push(c);
            }
        }
        if t.chance(25) {
            s.push(' ');
        }
    }
    s.replace(['\n', '\r'], "").trim().to_string()
}

fn gen_file_name(t: &mut Tape, bg: bool) -> String {
    // words with a meaning somewhere in the osu! ecosystem: as a file name they are just names
    if t.chance(8) {
        return (*t.pick(&["virtual", "Virtual", "none", "None", "null", "default", "auto", "0", "-1", "true", "audio.mp3", "bg", "Background", "Video", "Break"])).to_string();
    }
    let mut s = gen_free_text(t).replace('\\', "");
    if t.chance(50) {
        s.push_str(*t.pick(&[".jpg", ".png", ".mp4", ".avi", ".MOV", ".mp3", ".ogg", ".flv", "mpg", ".m4v", ".wmv", ".jpeg", ".osb"]));
    }
    if bg {
        s = s.replace(',', "");
    }
    // (after the comma removal: "/,/" must not turn into a comment marker)
    while s.contains("//") {
        s = s.replace("//", "/");
    }
    if bg {
        // no quotes and no whitespace at the edges (repeat until stable)
        loop {
            let t2 = s.trim().trim_matches('"').to_string();
            if t2 == s {
                break;
            }
            s = t2;
        }
    }
    s.trim().to_string()
}

fn gen_f32(t: &mut Tape) -> f32 {
    match t.below(8) {
        0 => t.int(0, 100) as f32 / 10.0,
        1 => *t.pick(&[0.0f32, -0.0, 0.7, 10.0, 1.0e-10, 2147483648.0, -2147483648.0, 3.4e9_f32.min(2147483648.0), 1.17549435e-38, 1.0e-45, 0.1, 1.0 / 3.0]),
        2 => (t.unit() * 20.0 - 5.0) as f32,
        3 => f32::from_bits(t.int(0, 0x4F00_0000) as u32),
        _ => t.int(0, 1000) as f32 / 100.0,
    }
}

fn gen_f64(t: &mut Tape, lo: f64, hi: f64) -> f64 {
    let v = match t.below(6) {
        0 => lo,
        1 => hi,
        2 => lo + (hi - lo) * t.unit(),
        3 => *t.pick(&[1.0, 1.4, 0.5, 2.0, 1.0 / 3.0, 0.1 + 0.2, 1e-9, 123456.789]),
        _ => lo + (hi - lo) * (t.int(0, 1000) as f64 / 1000.0),
    };
    v.clamp(lo, hi)
}

fn gen_i32(t: &mut Tape, positive: bool) -> i32 {
    let v = match t.below(6) {
        0 => 2147483647,
        1 => -2147483647,
        2 => t.int(-1000, 1000) as i32,
        3 => 0,
        _ => t.int(-100000, 10_000_000) as i32,
    };
    if positive {
        v.checked_abs().unwrap_or(1).max(1)
    } else {
        v
    }
}

fn gen_edit(t: &mut Tape) -> Edit {
    // scale (about 0.3 % of the edits): a value that makes its encoded line 4 K .. 200 K characters long
    if t.chance(1) && t.chance(30) {
        use crate::gen::doc::{long_fill, long_len};
        let n = long_len(t);
        return match t.below(3) {
            0 => Edit::Text(*t.pick(&["tags", "title_unicode", "source", "creator"]), long_fill(t, n).trim().to_string()),
            1 => Edit::Bookmarks((0..n / 8 + 1).map(|i| 1_000_000 + (i as i32) * 7).collect()),
            _ => Edit::AudioFile(format!("{}.mp3", long_fill(t, n).trim())),
        };
    }
    match t.below(16) {
        0..=2 => Edit::Text(*t.pick(&["title", "title_unicode", "artist", "artist_unicode", "creator", "version", "source", "tags"]), gen_free_text(t)),
        3 => Edit::AudioFile(gen_file_name(t, false)),
        4 => Edit::Background(gen_file_name(t, true)),
        5 => {
            let n = *t.pick(&["preview_time", "beatmap_id", "beatmap_set_id", "countdown_offset", "beat_divisor", "grid_size"]);
            Edit::I32(n, gen_i32(t, matches!(n, "beatmap_id" | "beatmap_set_id" | "countdown_offset")))
        }
        6 => Edit::LeadIn(gen_i32(t, false)),
        7 => Edit::F32(*t.pick(&["stack_leniency", "hp_drain_rate", "circle_size", "overall_difficulty", "approach_rate"]), gen_f32(t)),
        8 => {
            let n = *t.pick(&["distance_spacing", "timeline_zoom", "slider_multiplier", "slider_tick_rate"]);
            let v = match n {
                "slider_multiplier" => gen_f64(t, 0.4, 3.6),
                "slider_tick_rate" => gen_f64(t, 0.5, 8.0),
                _ => gen_f64(t, -2147483647.0, 2147483647.0),
            };
            Edit::F64(n, v)
        }
        9 => Edit::Flag(*t.pick(&["letterbox_in_breaks", "widescreen_storyboard", "epilepsy_warning", "samples_match_playback_rate", "special_style"]), t.chance(50)),
        10 => Edit::Mode(t.below(4) as u8),
        11 => Edit::Countdown(t.below(4) as u8),
        12 => {
            let n = t.below(6);
            Edit::Bookmarks((0..n).map(|_| if t.chance(10) { i32::MIN } else { gen_i32(t, false) }).collect())
        }
        13 => {
            if t.chance(12) {
                // the crate's public default palette, whole or in part, as an explicit value
                let k = *t.pick(&[4usize, 4, 3, 1]);
                return Edit::ComboColours(rosu_map::section::colors::Colors::DEFAULT_COMBO_COLORS.iter().take(k).map(|c| [c.red(), c.green(), c.blue()]).collect());
            }
            let n = t.below(9);
            Edit::ComboColours((0..n).map(|_| [t.byte(), t.byte(), t.byte()]).collect())
        }
        14 => {
            let n = t.below(4);
            let mut v: Vec<(String, [u8; 3])> = vec![];
            for _ in 0..n {
                let mut name = if t.chance(25) {
                    // names close to the reserved `Combo` prefix / the other reserved keys (only exactly `Combo...` is reserved)
                    (*t.pick(&["comboBurstTint", "COMBO_FIRE", "combo1", "cOMBO2", "Comb", "xCombo1", "sliderborder", "SLIDERBORDER", "SliderBorder2", "Slider Border", "slidertrackoverride"])).to_string()
                } else {
                    gen_free_text(t).replace(':', "")
                };
                while name.contains("//") {
                    name = name.replace("//", "/");
                }
                let name = name.trim().to_string();
                if name.is_empty() || name.starts_with("Combo") || v.iter().any(|x| x.0 == name) {
                    continue;
                }
                v.push((name, [t.byte(), t.byte(), t.byte()]));
            }
            Edit::NamedColours(v)
        }
        _ => {
            let n = t.below(4);
            let mut start = t.int(-1000, 50000) as f64;
            let mut v = vec![];
            for _ in 0..n {
                let len = match t.below(4) {
                    0 => 0.0,
                    1 => t.int(0, 5000) as f64 + 0.5,
                    _ => t.int(0, 20000) as f64,
                };
                v.push((start, start + len));
                start += len + t.int(1, 30000) as f64 / 4.0;
            }
            Edit::Breaks(v)
        }
    }
}

fn strip_new_combo(m: &mut Beatmap) {
    for h in m.hit_objects.iter_mut() {
        match &mut h.kind {
            HitObjectKind::Circle(c) => c.new_combo = false,
            HitObjectKind::Slider(c) => c.new_combo = false,
            HitObjectKind::Spinner(c) => c.new_combo = false,
            HitObjectKind::Hold(_) => {}
        }
    }
}

pub struct Case {
    pub text: String,
    pub edits: Vec<Edit>,
    pub tape: Vec<u8>,
}

pub fn gen_case(t: &mut Tape) -> Case {
    let text = gen_accepted(t, Avoid::ALL, 5).text();
    let n = 1 + t.below(4);
    let mut edits: Vec<Edit> = (0..n).map(|_| gen_edit(t)).collect();
    // break edits: in two cases out of five a break end is moved exactly onto (or 1/8 ms beside) an object's start time
    let starts: Vec<f64> = rosu_map::from_str::<Beatmap>(&text).map(|m| m.hit_objects.iter().map(|h| h.start_time).collect()).unwrap_or_default();
    for e in edits.iter_mut() {
        if let Edit::Breaks(v) = e {
            if !v.is_empty() && !starts.is_empty() && t.chance(40) {
                let i = t.below(v.len());
                let target = starts[t.below(starts.len())] + *t.pick(&[0.0, 0.0, 0.125, -0.125]);
                if target.is_finite() && target.abs() < 2.0e9 {
                    v[i].1 = target;
                    if v[i].0 > target {
                        v[i].0 = target - 10.0;
                    }
                }
            }
        }
    }
    Case { text, edits, tape: t.all_bytes().to_vec() }
}

fn case_json(c: &Case) -> Value {
    let hex: String = c.tape.iter().map(|b| format!("{b:02x}")).collect();
    json!({"text": c.text, "edits": c.edits.iter().map(Edit::to_json).collect::<Vec<_>>(), "replay_tape_hex": hex})
}

pub fn evaluate(c: &Case) -> Result<bool, String> {
    let m1: Beatmap = rosu_map::from_str(&c.text).map_err(|e| format!("decode error {e}"))?;
    let enc0 = m1.clone().encode_to_string().map_err(|e| format!("encode error {e}"))?;
    let mut r0: Beatmap = rosu_map::from_str(&enc0).map_err(|e| format!("decode error {e}"))?;
    let mut edited = m1.clone();
    let mut changed = false;
    for e in &c.edits {
        let before = format!("{:?}", (&edited.title, &edited.title_unicode, &edited.artist, &edited.artist_unicode, &edited.creator, &edited.version, &edited.source, &edited.tags, &edited.audio_file, &edited.background_file));
        let before2 = format!("{:?}", (edited.preview_time, edited.beatmap_id, edited.beatmap_set_id, edited.countdown_offset, edited.beat_divisor, edited.grid_size, edited.audio_lead_in, edited.stack_leniency, edited.hp_drain_rate, edited.circle_size, edited.overall_difficulty, edited.approach_rate));
        let before3 = format!("{:?}", (edited.distance_spacing, edited.timeline_zoom, edited.slider_multiplier, edited.slider_tick_rate, edited.letterbox_in_breaks, edited.widescreen_storyboard, edited.epilepsy_warning, edited.samples_match_playback_rate, edited.special_style, edited.mode, edited.countdown, &edited.bookmarks));
        let before4 = format!("{:?}", (&edited.custom_combo_colors, &edited.custom_colors, &edited.breaks));
        e.apply(&mut edited);
        let after = format!("{:?}", (&edited.title, &edited.title_unicode, &edited.artist, &edited.artist_unicode, &edited.creator, &edited.version, &edited.source, &edited.tags, &edited.audio_file, &edited.background_file));
        let after2 = format!("{:?}", (edited.preview_time, edited.beatmap_id, edited.beatmap_set_id, edited.countdown_offset, edited.beat_divisor, edited.grid_size, edited.audio_lead_in, edited.stack_leniency, edited.hp_drain_rate, edited.circle_size, edited.overall_difficulty, edited.approach_rate));
        let after3 = format!("{:?}", (edited.distance_spacing, edited.timeline_zoom, edited.slider_multiplier, edited.slider_tick_rate, edited.letterbox_in_breaks, edited.widescreen_storyboard, edited.epilepsy_warning, edited.samples_match_playback_rate, edited.special_style, edited.mode, edited.countdown, &edited.bookmarks));
        let after4 = format!("{:?}", (&edited.custom_combo_colors, &edited.custom_colors, &edited.breaks));
        if before != after || before2 != after2 || before3 != after3 || before4 != after4 {
            changed = true;
        }
    }
    let enc = edited.clone().encode_to_string().map_err(|e| format!("encode error {e}"))?;
    let mut r: Beatmap = rosu_map::from_str(&enc).map_err(|e| format!("decode error {e}"))?;
    // (1) every edited field shows exactly the edited value (the last edit of a field wins)
    for e in &c.edits {
        e.holds(&r, &edited).map_err(|m| format!("{m}\n--- encoded text ---\n{}", enc.chars().take(2500).collect::<String>()))?;
    }
    // (2) every other preserved field equals the unedited round trip
    let names: Vec<&str> = c.edits.iter().map(Edit::name).collect();
    let mode_edit = names.contains(&"mode") && edited.mode != m1.mode;
    let velocity_edit = names.contains(&"slider_multiplier");
    if names.contains(&"breaks") {
        // a break edit may change new-combo flags, but only as the rule says: going through the objects in time
        // order, the first circle / slider / spinner reached after one or more breaks have ended strictly before
        // it (`end < start`) is forced to start a combo (a hold in that place uses the force up); explicit flags stay
        if r.hit_objects.len() == r0.hit_objects.len() {
            let flag = |h: &rosu_map::section::hit_objects::HitObject| match &h.kind {
                HitObjectKind::Circle(c) => Some(c.new_combo),
                HitObjectKind::Slider(c) => Some(c.new_combo),
                HitObjectKind::Spinner(c) => Some(c.new_combo),
                HitObjectKind::Hold(_) => None,
            };
            let mut cur = 0;
            for (i, (a, b)) in r0.hit_objects.iter().zip(&r.hit_objects).enumerate() {
                let mut forced = false;
                while cur < edited.breaks.len() && edited.breaks[cur].end_time < b.start_time {
                    forced = true;
                    cur += 1;
                }
                if let (Some(f0), Some(f)) = (flag(a), flag(b)) {
                    // (r0's flags are M1's: explicit ones plus those its own breaks had forced before the edit)
                    if f != (f0 || forced) {
                        return Err(format!("after the break edit hit object {i} (start {}) has new_combo = {f}; it had {f0} before and the edited breaks {} force it (breaks {:?})", b.start_time, if forced { "do" } else { "do not" }, edited.breaks));
                    }
                }
            }
        }
        strip_new_combo(&mut r0);
        strip_new_combo(&mut r);
    }
    let diffs = compare(&mut r0, &mut r, &Opts { curves: !mode_edit });
    for d in diffs {
        let allowed = match &d.kind {
            DiffKind::Field(f) => names.contains(f) || (*f == "special_style" && mode_edit),
            // mode decides scroll speed, the velocity clamp, Catmull simplification and therefore end times / default banks
            DiffKind::ScrollTimeline { .. } | DiffKind::Velocity | DiffKind::Curve | DiffKind::ExpectedDist | DiffKind::Samples | DiffKind::NodeSamples => mode_edit || (velocity_edit && matches!(d.kind, DiffKind::Velocity | DiffKind::Samples | DiffKind::NodeSamples)),
            _ => false,
        };
        if !allowed {
            return Err(format!(
                "a field that was not edited changed: {:?}{}: {}\n edits: {:?}",
                d.kind,
                d.obj.map_or(String::new(), |i| format!(" (hit object {i})")),
                d.detail,
                c.edits
            ));
        }
    }
    Ok(changed)
}

pub fn run(ctx: &mut Ctx) {
    ctx.rule = "cases are (decoded map from the accepted-mode generator, 1..4 edits). Edits set a field to a value the format can represent: metadata text = any string without line breaks / surrounding whitespace (pool rich in ':', '//', ',', quotes, brackets, header-like and version-like text, non-ASCII, plus random scalars); file names (no backslash, '//', for the background no comma / edge quotes); ints within +-(2^31-1) (ids and countdown offset > 0); integral lead-in; finite f32/f64 within the limits (slider multiplier in [0.4,3.6], tick rate in [0.5,8]); flags, mode, countdown; bookmarks; combo / named colours; breaks with start <= end. Oracle: R=decode(encode(edit(M1))) shows exactly the edited value for every edited field, and every other C02-compared field equals R0=decode(encode(M1)) (dependents exempted by a fixed table: mode -> scroll speed / velocity clamp / curves / default banks / special style; slider multiplier -> velocity and therefore end times; breaks -> new-combo flags, which must follow the break rule exactly: forced on the first object after breaks that ended strictly before it). Non-trivial = at least one edit changes a value; distinct by hash(text, edits).".into();
    crate::props::replay_regress_generic(ctx, replay);
    let cases = ctx.tier.pick(600_000u64, 5_000_000u64);
    ctx.pbt("c03-random", cases, 2500, |t, st| {
        let c = gen_case(t);
        st.eval();
        for e in &c.edits {
            st.label(&format!("edit:{}", e.name()));
            if matches!(e, Edit::Text(_, v) | Edit::AudioFile(v) if v.len() > 4000) || matches!(e, Edit::Bookmarks(v) if v.len() > 500) {
                st.label("edit makes a very long line");
            }
            if let Edit::Text(_, v) = e {
                if v.contains(':') {
                    st.label("text value contains ':'");
                }
                if !v.is_ascii() {
                    st.label("text value non-ASCII");
                }
                if v.contains("//") {
                    st.label("text value contains '//'");
                }
            }
        }
        match evaluate(&c) {
            Ok(changed) => {
                if changed {
                    let fresh = st.nontrivial(hash64(&(c.text.as_str(), format!("{:?}", c.edits))));
                    if fresh && c.text.len() < 900 {
                        st.sample(|| case_json(&c));
                    }
                }
                Ok(())
            }
            Err(m) => Err(Fail::json(m, &case_json(&c))),
        }
    });
}

pub fn replay(_ctx: &mut Ctx, ext: &str, bytes: &[u8]) -> Result<Option<String>, Fail> {
    if ext == "tape" {
        let c = gen_case(&mut Tape::new(bytes));
        return evaluate(&c).map(|_| None).map_err(|m| Fail::json(m, &case_json(&c)));
    }
    if ext == "osu" {
        // a plain file: apply a fixed battery of edits
        let text = String::from_utf8_lossy(bytes).into_owned();
        let c = Case {
            text,
            tape: vec![],
            edits: vec![
                Edit::Text("title", "Re:Zero // not a comment".into()),
                Edit::Text("creator", "[General]".into()),
                Edit::I32("beatmap_id", 42),
                Edit::F32("approach_rate", 9.3),
            ],
        };
        return evaluate(&c).map(|_| None).map_err(|m| Fail::json(m, &case_json(&c)));
    }
    let v: Value = serde_json::from_slice(bytes).map_err(|e| Fail::new(format!("bad JSON {e}"), "json", bytes.to_vec()))?;
    let hex = v["replay_tape_hex"].as_str().unwrap_or("");
    let tape: Vec<u8> = (0..hex.len() / 2).filter_map(|i| u8::from_str_radix(&hex[2 * i..2 * i + 2], 16).ok()).collect();
    let c = gen_case(&mut Tape::new(&tape));
    evaluate(&c).map(|_| None).map_err(|m| Fail::json(m, &case_json(&c)))
}
