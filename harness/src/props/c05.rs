//! C05 - file framing: which lines reach which section parser.

use crate::engine::*;
use crate::oracle::cmp::full_diff;
use crate::refmodel::framing::*;
use rosu_map::Beatmap;
use serde_json::json;

pub const KINDS: &[&str] = &[
    "",
    "   ",
    "\t",
    "// c",
    "  // c",
    "osu file format v14",
    "osu file format v9",
    "osu file format v",
    "osu file format vX",
    "osu file format v14 // c",
    " osu file format v14",
    "osu file format v14  ",
    "osu file format v2147483648",
    "osu file format v-3",
    "osu file format v 7",
    "osu file format v7v",
    "[General]",
    "[Editor]",
    "[Metadata]",
    "[Difficulty]",
    "[Events]",
    "[TimingPoints]",
    "[Colours]",
    "[HitObjects]",
    "[Variables]",
    "[CatchTheBeat]",
    "[Mania]",
    "[general]",
    " [General]",
    "[General] ",
    "[General]x",
    "[Unknown]",
    "[]",
    "[",
    "[Colors]",
    "[Hit Objects Longer]",
    "Mode: 1",
    "Title: t",
    "0,0,\"bg.jpg\"",
    "100,500,4,1,0,100,1,0",
    "Combo1: 1,2,3",
    "1,2,3,1,0",
    "key: value",
    "x",
    // non-ASCII records whose UTF-16 code units contain the byte 0x0A, also straddling two units (xx00 0Ayy)
    // Unicode whitespace: indentation of a comment, trailing whitespace of a header, whitespace-only line
    "\u{3000}// c",
    "\u{a0}\t//c",
    "[Metadata]\u{3000}",
    "\u{2009}\u{a0}",
    "TitleUnicode:\u{4e00}\u{0a15}\u{0a3e}",
    "Tags: \u{4e0a} \u{010a}\u{0a00} end",
];

const TERMS: [(&str, bool); 3] = [("\n", true), ("\r\n", true), ("\n", false)];

fn assemble(kinds: &[&str], term: &str, last_term: bool) -> String {
    let mut text = String::new();
    let n = kinds.len();
    for (j, k) in kinds.iter().enumerate() {
        text.push_str(k);
        if j + 1 < n || last_term {
            text.push_str(term);
        }
    }
    text
}

/// oracle (a): the recorded trace equals the predicted one
fn check_trace(text: &str, enc: Enc) -> Result<Framed, String> {
    let bytes = encode_text(text, enc);
    let got: Rec = rosu_map::from_bytes(&bytes).map_err(|e| format!("decode error from an in-memory buffer: {e}"))?;
    let want = frame(text);
    if got.version != want.version {
        return Err(format!("[{}] format version {} but the first non-blank line rule gives {}", enc.name(), got.version, want.version));
    }
    if got.trace != want.trace {
        let i = got.trace.iter().zip(&want.trace).position(|(a, b)| a != b).unwrap_or(got.trace.len().min(want.trace.len()));
        return Err(format!(
            "[{}] lines reaching the section parsers differ at position {i}: got {:?}, framing rules give {:?} ({} vs {} lines)",
            enc.name(),
            got.trace.get(i).map(|(s, l)| (s, l.chars().take(160).collect::<String>(), l.len())),
            want.trace.get(i).map(|(s, l)| (s, l.chars().take(160).collect::<String>(), l.len())),
            got.trace.len(),
            want.trace.len()
        ));
    }
    Ok(want)
}

fn decode_bm(text: &str) -> Result<Beatmap, String> {
    rosu_map::from_bytes::<Beatmap>(text.as_bytes()).map_err(|e| format!("decode error: {e}"))
}

/// oracles (b) and (c) on a text (UTF-8)
fn check_beatmap_level(text: &str, want: &Framed, t: &mut Tape) -> Result<(), String> {
    let bm = decode_bm(text)?;
    // (b) the reference driver feeding the same public section parsers
    let driven = drive_beatmap(want.version, &want.trace);
    if let Some(d) = full_diff(&bm, &driven) {
        return Err(format!("Beatmap differs from the reference driver feeding the same lines to the public section parsers: {d}"));
    }
    // (c) metamorphic insertions
    let lines: Vec<&str> = text.split('\n').collect();
    let n = lines.len();
    for round in 0..3 {
        let mut out: Vec<String> = lines.iter().map(|s| s.to_string()).collect();
        let what;
        match round {
            0 => {
                // blank / whitespace-only lines anywhere
                let k = 1 + t.below(3);
                for _ in 0..k {
                    let pos = t.below(out.len() + 1);
                    out.insert(pos, (*t.pick(&["", "   ", "\t", "\r", " \t "])).to_string());
                }
                what = "blank lines inserted";
            }
            1 => {
                // comment lines anywhere after the first non-blank line
                let Some(fnb) = want.first_nonblank_line else { continue };
                if fnb + 1 > n {
                    continue;
                }
                let pos = fnb + 1 + t.below(out.len() - fnb);
                out.insert(pos.min(out.len()), (*t.pick(&["// comment", "  // indented", "//", "\t//[General]", "//osu file format v3"])).to_string());
                what = "comment line inserted after the first non-blank line";
            }
            _ => {
                // unrecognised bracketed lines anywhere after the first recognised header
                let Some(fh) = want.first_header_line else { continue };
                let pos = fh + 1 + t.below(out.len() - fh);
                out.insert(pos.min(out.len()), (*t.pick(&["[Unknown]", "[general]", "[]", "[Colors]", "[General]x", " [Editor]", "[Hit Objects]"])).to_string());
                what = "unrecognised bracketed line inserted after the first header";
            }
        }
        let t2 = out.join("\n");
        let bm2 = decode_bm(&t2)?;
        if let Some(d) = full_diff(&bm, &bm2) {
            return Err(format!("{what} changed the result: {d}\n--- modified text ---\n{t2}"));
        }
    }
    Ok(())
}

fn index_to_seq(mut idx: u64, max_len: usize) -> Vec<&'static str> {
    let k = KINDS.len() as u64;
    let mut len = 0usize;
    let mut block = 1u64;
    while len <= max_len {
        if idx < block {
            break;
        }
        idx -= block;
        block *= k;
        len += 1;
    }
    let mut v = Vec::with_capacity(len);
    for _ in 0..len {
        v.push(KINDS[(idx % k) as usize]);
        idx /= k;
    }
    v.reverse();
    v
}

const MORE: &[&str] = &[
    // bracketed names that are sections elsewhere in the osu! ecosystem but not in a beatmap: not headers here
    // UTF-16BE: bytes 00 0D 00 0A / 00 0A at odd offsets, CR / LF look-alikes inside units
    "Title:\u{100}\u{d00}\u{a15}",
    "Artist:\u{4e00}\u{a0d}\u{d0a}\u{a0a}x",
    "Mode\u{ff1a}3",
    "$bg=real.jpg",
    "[General] // see [Metadata]",
    "[Metadata] //]",
    "[HitObjects]//x]",
    "[Difficulty] // [x",
    "osu file format v1v4",
    "osu file format v14 v7",
    "osu file format v9v",
    "osu file format vv12",
    "_Combo1 : 1,2,3",
    "_x",
    "[Fonts]",
    "[Storyboard]",
    "[Skin]",
    "[Colors]",
    "[TimingPoint]",
    "[HitObject]",
    "[Event]",
    "[GENERAL]",
    "[Metadata ]",
    "AudioFilename: a.mp3",
    "Mode: 3",
    "Bookmarks: 1,2,3",
    "Creator: me",
    "BeatmapID: 12",
    "ApproachRate: 9",
    "SliderMultiplier: 2",
    "2,100,200",
    "0,-100,4,1,0,100,0,1",
    "50,-50,4,2,0,60,0,0",
    "Combo2: 9,9,9",
    "SliderBorder: 1,1,1",
    "256,192,1000,1,0,0:0:0:0:",
    "100,100,2000,2,0,L|200:200,1,100",
    "100,100,3000,6,0,B|200:200|300:100,2,150,2|0|0,0:0|0:0|0:0,0:0:0:0:",
    "256,192,4000,12,0,5000",
    "garbage,,",
    "\u{b}// vertical tab comment",
    "\u{85}//c",
    "Title: t\u{3000}",
    "[HitObjects]\u{a0}",
    "osu file format v9\u{3000}",
    "ArtistUnicode:\u{0100}\u{0a05}\u{ff00}\u{0a0a}",
    "Source:\u{1F3B5}\u{d7ff}\u{e000}",
    "Mode: x",
    "1,2",
    "osu file format v12",
    "[HitObjects]",
    "[TimingPoints]",
    "[Events]",
    "[Metadata]",
];

fn gen_seq(t: &mut Tape) -> (Vec<&'static str>, usize) {
    let n = t.below(41);
    let v = (0..n)
        .map(|_| if t.chance(45) { *t.pick(MORE) } else { *t.pick(KINDS) })
        .collect();
    (v, t.below(3))
}

pub fn run(ctx: &mut Ctx) {
    ctx.rule = format!("cases are files assembled from an alphabet of {} line kinds (blank, whitespace, comments, good/bad/suffixed version lines, the 11 headers, lower-case / indented / suffixed / unknown / empty-bracket headers, valid and invalid records per section) x terminators {{LF, CRLF, none on the last line}} x the four encodings. Exhaustive up to the stated length, random sequences up to 40 lines (with a richer record pool) beyond. Oracle (a): the trace of a recording DecodeBeatmap implementor equals the framing model's; (b) Beatmap equals a reference driver feeding the predicted lines to the public parse_* functions; (c) inserting blank lines anywhere, comment lines after the first non-blank line and unrecognised bracketed lines after the first header leaves the Beatmap unchanged. Non-trivial = >= 1 recognised header and >= 1 line reaching a parser; distinct by construction / by text hash.", KINDS.len());
    ctx.assumptions.push("oracle (b) shares the public parse_* functions with the implementation on purpose: C05 is about which line reaches which parser, not what the parser does".into());
    crate::props::replay_regress_generic(ctx, replay);

    let max_len = ctx.tier.pick(4usize, 5usize);
    let k = KINDS.len() as u64;
    let mut total = 0u64;
    let mut b = 1u64;
    for _ in 0..=max_len {
        total += b;
        b *= k;
    }
    ctx.enumerate(&format!("line-kind sequences over {k} kinds, length<={max_len}, x3 terminators x4 encodings"), total, |i, st| {
        let seq = index_to_seq(i, max_len);
        for (term, last) in TERMS {
            if seq.is_empty() && !(term == "\n" && last) {
                continue;
            }
            let text = assemble(&seq, term, last);
            for enc in ENCS {
                st.eval();
                match check_trace(&text, enc) {
                    Ok(fr) => {
                        if !fr.trace.is_empty() {
                            st.nontrivial_distinct();
                            if i % 400_009 == 13 && enc == Enc::Utf16Le {
                                st.sample(|| json!({"encoding": enc.name(), "text": text}));
                            }
                        }
                    }
                    Err(m) => return Err(Fail::new(m, "osu", encode_text(&text, enc))),
                }
            }
        }
        Ok(())
    });

    let cases = ctx.tier.pick(40_000u64, 600_000u64);
    ctx.pbt("c05-random", cases, 200, |t, st| {
        let (seq, term) = gen_seq(t);
        let (term, last) = TERMS[term];
        let text = assemble(&seq, term, last);
        let mut framed = None;
        for enc in ENCS {
            st.eval();
            match check_trace(&text, enc) {
                Ok(fr) => framed = Some(fr),
                Err(m) => return Err(Fail::new(m, "osu", encode_text(&text, enc))),
            }
        }
        let fr = framed.unwrap();
        if !fr.trace.is_empty() {
            let fresh = st.nontrivial(hash64(&text));
            if fresh && seq.len() >= 6 && seq.len() <= 12 {
                st.sample(|| json!({"encoding": "all four", "text": text}));
            }
        }
        st.label(match fr.trace.len() {
            0 => "no line reaches a parser",
            1..=5 => "1-5 lines reach parsers",
            _ => ">5 lines reach parsers",
        });
        check_beatmap_level(&text, &fr, t).map_err(|m| Fail::new(m, "osu", text.clone().into_bytes()))
    });

    // scale: one very long line (4 KiB .. 200 K characters, around the usual buffer sizes) between ordinary kinds,
    // and very many rejected lines before real content
    let cases = ctx.tier.pick(240u64, 2_400u64);
    ctx.pbt("c05-long-lines", cases, 200, |t, st| {
        let many = t.chance(12);
        let text = if many {
            crate::gen::doc::gen_many_lines_doc(t)
        } else {
            let (pre, _) = gen_seq(t);
            let (post, term) = gen_seq(t);
            let (term, last) = TERMS[term];
            let (sec, line) = crate::gen::doc::long_line(t);
            let mut seq: Vec<&str> = pre.into_iter().take(6).collect();
            seq.push(sec);
            seq.push(&line);
            seq.extend(post.into_iter().take(6));
            assemble(&seq, term, last)
        };
        for enc in ENCS {
            st.eval();
            match check_trace(&text, enc) {
                Ok(fr) => {
                    if !fr.trace.is_empty() {
                        st.nontrivial(hash64(&(text.as_str(), enc.name())));
                    }
                }
                Err(m) => return Err(Fail::new(m, "osu", encode_text(&text, enc))),
            }
        }
        st.label(if many { "very many lines" } else { "very long line" });
        Ok(())
    });
}

pub fn replay(_ctx: &mut Ctx, ext: &str, bytes: &[u8]) -> Result<Option<String>, Fail> {
    if ext == "tape" {
        let mut t = Tape::new(bytes);
        let (seq, term) = gen_seq(&mut t);
        let (term, last) = TERMS[term];
        let text = assemble(&seq, term, last);
        for enc in ENCS {
            check_trace(&text, enc).map_err(|m| Fail::new(m, "osu", encode_text(&text, enc)))?;
        }
        let fr = frame(&text);
        return check_beatmap_level(&text, &fr, &mut t).map(|_| None).map_err(|m| Fail::new(m, "osu", text.into_bytes()));
    }
    // raw bytes: decode them independently, then compare
    let text = decode_bytes(bytes);
    let got: Rec = rosu_map::from_bytes(bytes).map_err(|e| Fail::new(format!("decode error {e}"), "osu", bytes.to_vec()))?;
    let want = frame(&text);
    if got.version != want.version || got.trace != want.trace {
        return Err(Fail::new(
            format!("trace/version differ: got v{} {:?}, framing rules give v{} {:?}", got.version, got.trace, want.version, want.trace),
            "osu",
            bytes.to_vec(),
        ));
    }
    let mut t = Tape::new(&[7, 99, 180, 33, 250, 1, 128, 64, 200, 17, 90, 5]);
    check_beatmap_level(&text, &want, &mut t).map(|_| None).map_err(|m| Fail::new(m, "osu", bytes.to_vec()))
}
