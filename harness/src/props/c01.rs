//! C01 - decoding and re-encoding never panic, hang or fail on arbitrary bytes.
//! (C07 shares the input generator, see c07.rs.)

use crate::engine::*;
use crate::gen::corpus::*;
use crate::gen::doc::*;
use crate::refmodel::framing::{decode_bytes, encode_text, frame, Enc};
use rosu_map::section::colors::Colors;
use rosu_map::section::difficulty::Difficulty;
use rosu_map::section::editor::Editor;
use rosu_map::section::events::Events;
use rosu_map::section::general::{GameMode, General};
use rosu_map::section::hit_objects::{HitObjectKind, HitObjects};
use rosu_map::section::metadata::Metadata;
use rosu_map::section::timing_points::TimingPoints;
use rosu_map::Beatmap;
use serde_json::json;
use std::panic::{catch_unwind, AssertUnwindSafe};
use std::sync::atomic::{AtomicU64, Ordering};

pub struct Input {
    pub bytes: Vec<u8>,
    pub family: &'static str,
    /// nonce of the appended sentinel record, if one was appended
    pub sentinel: Option<String>,
}

fn enc_of(bytes: &[u8]) -> Enc {
    if bytes.starts_with(&[0xEF, 0xBB, 0xBF]) {
        Enc::Utf8Bom
    } else if bytes.starts_with(&[0xFF, 0xFE]) {
        Enc::Utf16Le
    } else if bytes.starts_with(&[0xFE, 0xFF]) {
        Enc::Utf16Be
    } else {
        Enc::Utf8
    }
}

static NONCE: AtomicU64 = AtomicU64::new(1);

/// append `LF [Metadata] LF Creator: <nonce> LF` in the encoding the BOM announces;
/// only when the body has whole code units
pub fn add_sentinel(bytes: &mut Vec<u8>) -> Option<String> {
    let enc = enc_of(bytes);
    let body = match enc {
        Enc::Utf8 => bytes.len(),
        Enc::Utf8Bom => bytes.len() - 3,
        _ => bytes.len() - 2,
    };
    if matches!(enc, Enc::Utf16Le | Enc::Utf16Be) && body % 2 != 0 {
        return None;
    }
    let nonce = format!("verif-{:x}", NONCE.fetch_add(1, Ordering::Relaxed) * 0x9E37 + 17);
    let tail = format!("\n[Metadata]\nCreator: {nonce}\n");
    match enc {
        Enc::Utf8 | Enc::Utf8Bom => bytes.extend_from_slice(tail.as_bytes()),
        Enc::Utf16Le => tail.encode_utf16().for_each(|u| bytes.extend(u.to_le_bytes())),
        Enc::Utf16Be => tail.encode_utf16().for_each(|u| bytes.extend(u.to_be_bytes())),
    }
    Some(nonce)
}

pub fn gen_input(t: &mut Tape) -> Input {
    let fam = t.weighted(&[2, 6, 4, 2, 2, 1]);
    let (mut bytes, family): (Vec<u8>, &'static str) = match fam {
        0 => {
            let n = t.below(513);
            let mut v: Vec<u8> = (0..n).map(|_| t.byte()).collect();
            if t.chance(25) {
                // announce an encoding
                let bom: &[u8] = *t.pick(&[&[0xFFu8, 0xFE][..], &[0xFE, 0xFF], &[0xEF, 0xBB, 0xBF]]);
                let mut w = bom.to_vec();
                w.append(&mut v);
                v = w;
            }
            (v, "noise")
        }
        1 => {
            let doc = gen_hostile(t, 6);
            let enc = pick_enc(t);
            (encode_text(&doc.text(), enc), "hostile-doc")
        }
        2 => {
            let base = pick_text(t);
            let text = mutate_text(t, base);
            let enc = pick_enc(t);
            (encode_text(&text, enc), "mutated-bundled")
        }
        3 => {
            let a = pick_text(t);
            let b = pick_text(t);
            let text = splice(t, a, b);
            (encode_text(&text, pick_enc(t)), "splice")
        }
        4 => {
            let doc = gen_hostile(t, 4);
            let mut b = encode_text(&doc.text(), pick_enc(t));
            mutate_bytes(t, &mut b);
            (b, "hostile-doc+byte-mutation")
        }
        _ => {
            let doc = gen_accepted(t, Avoid::NONE, 8);
            (encode_text(&doc.text(), pick_enc(t)), "accepted-doc")
        }
    };
    if t.chance(10) {
        // odd tail byte / truncation
        if t.chance(50) {
            bytes.push(t.byte());
        } else {
            let cut = t.below(bytes.len() + 1);
            bytes.truncate(cut);
        }
    }
    if bytes.len() > 65536 {
        bytes.truncate(65536);
    }
    let sentinel = if t.chance(70) { add_sentinel(&mut bytes) } else { None };
    Input { bytes, family, sentinel }
}

/// upper estimate of the number of slider events the encoder will iterate
pub fn predicted_events(map: &Beatmap) -> f64 {
    let mut total = 0.0;
    let mut m = map.clone();
    for h in m.hit_objects.iter_mut() {
        if let HitObjectKind::Slider(s) = &mut h.kind {
            let spans = f64::from(s.repeat_count + 1);
            let dist = s.path.curve().dist().min(100_000.0);
            if !dist.is_finite() {
                continue;
            }
            // smallest tick distance the format allows: 100 * 0.4 * 0.1 / 8
            total += spans * (1.0 + dist / 0.5);
        }
    }
    total
}

pub enum Verdict {
    Ok { nontrivial: bool, heavy: bool, rejected_lines: usize, has_slider: bool, is_default: bool },
    Fail(String),
}

fn caught<T>(what: &str, f: impl FnOnce() -> std::io::Result<T>) -> Result<T, String> {
    match catch_unwind(AssertUnwindSafe(f)) {
        Ok(Ok(v)) => Ok(v),
        Ok(Err(e)) => Err(format!("{what} returned Err({e}) although the reader is an in-memory buffer")),
        Err(p) => Err(format!("{what} panicked: {}", panic_message(&p))),
    }
}

pub fn check_totality(input: &Input) -> Verdict {
    let x = &input.bytes[..];
    macro_rules! dec {
        ($t:ty) => {
            match caught(concat!("from_bytes::<", stringify!($t), ">"), || rosu_map::from_bytes::<$t>(x)) {
                Ok(v) => v,
                Err(m) => return Verdict::Fail(m),
            }
        };
    }
    let _g = dec!(General);
    let _e = dec!(Editor);
    let m = dec!(Metadata);
    let _d = dec!(Difficulty);
    let _ev = dec!(Events);
    let _c = dec!(Colors);
    let _tp = dec!(TimingPoints);
    let _ho = dec!(HitObjects);
    let bm = dec!(Beatmap);
    if let Some(nonce) = &input.sentinel {
        if &bm.creator != nonce {
            return Verdict::Fail(format!("the parse did not survive to the end of the file: sentinel `Creator: {nonce}` after the content was not read by Beatmap (creator = {:?})", bm.creator));
        }
        if &m.creator != nonce {
            return Verdict::Fail(format!("sentinel `Creator: {nonce}` was not read by Metadata (creator = {:?})", m.creator));
        }
    }
    // re-encode, valid UTF-8, decodes again
    let heavy = predicted_events(&bm) > 5.0e6;
    if !heavy {
        let mut clone = bm.clone();
        let text = match caught("Beatmap::encode_to_string", || clone.encode_to_string()) {
            Ok(t) => t,
            Err(m) => return Verdict::Fail(m),
        };
        let mut buf = Vec::new();
        let mut clone2 = bm.clone();
        match caught("Beatmap::encode", || clone2.encode(&mut buf)) {
            Ok(()) => {}
            Err(m) => return Verdict::Fail(m),
        }
        if std::str::from_utf8(&buf).is_err() || buf != text.as_bytes() {
            return Verdict::Fail("encode() output is not the valid UTF-8 text encode_to_string() returns".into());
        }
        if let Err(m) = caught("decoding the re-encoded text", || rosu_map::from_str::<Beatmap>(&text)) {
            return Verdict::Fail(m);
        }
    }
    let text = decode_bytes(x);
    let fr = frame(&text);
    let rejected = if fr.trace.len() <= 400 {
        crate::refmodel::framing::rejected_in_trace(fr.version, &fr.trace).iter().filter(|r| **r).count()
    } else {
        0
    };
    Verdict::Ok {
        nontrivial: !fr.trace.is_empty(),
        heavy,
        rejected_lines: rejected,
        has_slider: bm.hit_objects.iter().any(|h| matches!(h.kind, HitObjectKind::Slider(_))),
        is_default: { let mut d = Beatmap::default(); d.format_version = bm.format_version; d.creator = bm.creator.clone(); d == bm },
    }
}

fn record(v: &Verdict, input: &Input, st: &mut Stats) -> CaseResult {
    st.eval();
    match v {
        Verdict::Ok { nontrivial, heavy, rejected_lines, has_slider, is_default } => {
            st.label(&format!("family:{}", input.family));
            st.label(match enc_of(&input.bytes) {
                Enc::Utf8 => "enc:utf8",
                Enc::Utf8Bom => "enc:utf8-bom",
                Enc::Utf16Le => "enc:utf16le",
                Enc::Utf16Be => "enc:utf16be",
            });
            if *heavy {
                st.exclude("excluded_heavy: encode leg skipped (predicted slider events > 5e6)");
            }
            if *rejected_lines > 0 {
                st.label("has rejected lines");
            }
            if *has_slider {
                st.label("has slider");
            }
            if *is_default {
                st.label("decoded equals default");
            }
            if input.sentinel.is_some() {
                st.label("sentinel appended");
            }
            if *nontrivial {
                let fresh = st.nontrivial(hash64(&input.bytes));
                if fresh && input.bytes.len() < 400 && *rejected_lines > 0 {
                    st.sample(|| json!({"family": input.family, "bytes_lossy": String::from_utf8_lossy(&input.bytes)}));
                }
            }
            Ok(())
        }
        Verdict::Fail(m) => Err(Fail::new(m.clone(), "osu", input.bytes.clone())),
    }
}

/// what the `tracing` build adds: a subscriber that formats every event, so that the
/// Display / source() chains of the error types are executed
#[cfg(feature = "tracing")]
pub mod trace_sink {
    use std::fmt::Write;
    use std::sync::atomic::{AtomicU64, Ordering};
    use tracing::field::{Field, Visit};
    use tracing::span::{Attributes, Id, Record};
    use tracing::{Event, Metadata, Subscriber};

    pub static EVENTS: AtomicU64 = AtomicU64::new(0);
    pub static BYTES: AtomicU64 = AtomicU64::new(0);

    struct V(String);
    impl Visit for V {
        fn record_debug(&mut self, field: &Field, value: &dyn std::fmt::Debug) {
            let _ = write!(self.0, "{}={:?};", field.name(), value);
        }
    }
    pub struct Sink;
    impl Subscriber for Sink {
        fn enabled(&self, _: &Metadata<'_>) -> bool {
            true
        }
        fn new_span(&self, _: &Attributes<'_>) -> Id {
            Id::from_u64(1)
        }
        fn record(&self, _: &Id, _: &Record<'_>) {}
        fn record_follows_from(&self, _: &Id, _: &Id) {}
        fn event(&self, event: &Event<'_>) {
            let mut v = V(String::new());
            event.record(&mut v);
            EVENTS.fetch_add(1, Ordering::Relaxed);
            BYTES.fetch_add(v.0.len() as u64, Ordering::Relaxed);
        }
        fn enter(&self, _: &Id) {}
        fn exit(&self, _: &Id) {}
    }
    pub fn install() {
        let _ = tracing::subscriber::set_global_default(Sink);
    }
}

pub fn tracing_build() -> bool {
    cfg!(feature = "tracing")
}

fn truncation_inputs(quick: bool) -> Vec<(&'static str, Vec<u8>)> {
    // every prefix length of every small bundled file and of generated docs; sampled lengths of the large maps
    let mut v: Vec<(&'static str, Vec<u8>)> = vec![];
    for b in small(8192) {
        v.push(("bundled", b.bytes.clone()));
    }
    let seeds: Vec<Vec<u8>> = (0..if quick { 12u32 } else { 50 }).map(|i| (0..600u32).map(|j| ((i * 7919 + j * 104729 + (j * j) % 251) % 256) as u8).collect()).collect();
    for s in &seeds {
        let doc = gen_hostile(&mut Tape::new(s), 5);
        v.push(("generated", doc.text().into_bytes()));
    }
    v
}

pub fn run(ctx: &mut Ctx) {
    #[cfg(feature = "tracing")]
    trace_sink::install();
    ctx.rule = format!("[feature set: {}] cases are byte strings from six families (uniform noise incl. BOM-prefixed, grammar-generated hostile .osu text, line/field mutations and splices of the bundled maps, byte mutations, accepted documents; each in UTF-8 / UTF-8+BOM / UTF-16LE / UTF-16BE, with odd tail bytes and truncations) plus every prefix length of every bundled file <= 8 KiB and of generated documents. Oracle: all nine decoder types return Ok inside catch_unwind (an in-memory cursor never fails, so any Err violates the statement), Beatmap re-encodes to valid UTF-8 (encode == encode_to_string) and that text decodes again; a sentinel record appended after the content (`Creator: <nonce>` under a fresh [Metadata] header) must be read by Beatmap and Metadata, i.e. nothing before it aborts or de-synchronises the parse; per-case watchdog for hangs. Non-trivial = at least one line reaches a section parser according to the framing model; distinct by hash of the bytes.", if tracing_build() { "tracing" } else { "default" });
    ctx.assumptions.push("inputs are bounded to 64 KiB and generated lines to a few KiB; the encode leg is skipped (counted as excluded_heavy) when the decoded map predicts more than 5e6 slider events - slow but terminating by construction of the iterator".into());
    ctx.assumptions.push("memory safety is exercised under AddressSanitizer by the fuzz target `total` in the thorough tier".into());
    crate::props::replay_regress_generic(ctx, replay);

    let wd = crate::watchdog::start(ctx.id);

    // truncations: every prefix
    let quick = ctx.tier == Tier::Quick;
    let files = truncation_inputs(quick);
    let mut offsets: Vec<(usize, usize)> = vec![];
    for (fi, (_, b)) in files.iter().enumerate() {
        for k in 0..=b.len() {
            offsets.push((fi, k));
        }
    }
    for b in large(8192) {
        let _ = b;
    }
    let n = offsets.len() as u64;
    ctx.enumerate("every prefix of every bundled file <= 8 KiB and of generated documents", n, |i, st| {
        let (fi, k) = offsets[i as usize];
        let input = Input { bytes: files[fi].1[..k].to_vec(), family: "truncation", sentinel: None };
        let _g = crate::watchdog::guard(&input.bytes);
        let v = check_totality(&input);
        if let Verdict::Ok { nontrivial: true, .. } = v {
            st.nontrivial_distinct();
        }
        match v {
            Verdict::Ok { .. } => {
                st.eval();
                Ok(())
            }
            Verdict::Fail(m) => Err(Fail::new(m, "osu", input.bytes)),
        }
    });
    // sampled prefixes of the large maps (+ sentinel)
    let lg = large(8192);
    let per = ctx.tier.pick(64u64, 512u64);
    ctx.enumerate("sampled prefix lengths of the large bundled maps", lg.len() as u64 * per, |i, st| {
        let b = lg[(i / per) as usize];
        let j = i % per;
        let k = ((b.bytes.len() as u64 * j) / per + (j * 7919) % 97) as usize;
        let mut bytes = b.bytes[..k.min(b.bytes.len())].to_vec();
        let sentinel = add_sentinel(&mut bytes);
        let input = Input { bytes, family: "truncation-large", sentinel };
        let _g = crate::watchdog::guard(&input.bytes);
        let v = check_totality(&input);
        if let Verdict::Ok { nontrivial: true, .. } = v {
            st.nontrivial_distinct();
        }
        match v {
            Verdict::Ok { .. } => {
                st.eval();
                Ok(())
            }
            Verdict::Fail(m) => Err(Fail::new(m, "osu", input.bytes)),
        }
    });

    let cases = ctx.tier.pick(400_000u64, 3_000_000u64);
    ctx.pbt("c01-random", cases, 3000, |t, st| {
        let input = gen_input(t);
        let _g = crate::watchdog::guard(&input.bytes);
        let v = check_totality(&input);
        record(&v, &input, st)
    });
    // scale and geometry: inputs beyond the 64 KiB cap of the families above (one very long line, very many
    // rejected lines, sliders with up to 9000 repeats / 3000 anchors) and sliders with hostile geometry
    // (nearly collinear / coincident / far-apart points in multi-segment paths), in the four encodings
    let cases = ctx.tier.pick(6_000u64, 60_000u64);
    ctx.pbt("c01-scale", cases, 400, |t, st| {
        let (text, family) = crate::gen::doc::gen_scale_doc(t);
        let mut bytes = encode_text(&text, pick_enc(t));
        let sentinel = if t.chance(70) { add_sentinel(&mut bytes) } else { None };
        let input = Input { bytes, family, sentinel };
        let _g = crate::watchdog::guard(&input.bytes);
        let v = check_totality(&input);
        record(&v, &input, st)
    });
    // map-level documents of C15 (objects around control points and breaks, sample points placed bit-exactly at
    // the times where slider nodes look them up, five section orders, all versions)
    let cases = ctx.tier.pick(80_000u64, 600_000u64);
    ctx.pbt("c01-map-level", cases, 700, |t, st| {
        let (d, k) = if t.chance(60) { crate::props::c15::gen_case_exact(t) } else { crate::props::c15::gen_case(t) };
        let text = crate::props::c15::render(&d, k);
        let mut bytes = encode_text(&text, pick_enc(t));
        let sentinel = if t.chance(50) { add_sentinel(&mut bytes) } else { None };
        let input = Input { bytes, family: "map-level", sentinel };
        let _g = crate::watchdog::guard(&input.bytes);
        let v = check_totality(&input);
        record(&v, &input, st)
    });
    drop(wd);
    #[cfg(feature = "tracing")]
    {
        ctx.stats.extra.insert("tracing_events_formatted".into(), json!(trace_sink::EVENTS.load(Ordering::Relaxed)));
        ctx.stats.extra.insert("tracing_bytes_formatted".into(), json!(trace_sink::BYTES.load(Ordering::Relaxed)));
    }
    ctx.stats.extra.insert("feature_set".into(), json!(if tracing_build() { "tracing" } else { "default" }));
    // the run of the `tracing` feature build (executed just before by ./check) is summarised here
    if let Ok(p) = std::env::var("VERIF_MERGE_FILE") {
        if let Ok(txt) = std::fs::read_to_string(&p) {
            if let Ok(v) = serde_json::from_str::<serde_json::Value>(&txt) {
                ctx.stats.extra.insert(
                    "tracing_feature_build_run".into(),
                    json!({
                        "evaluations": v["coverage"]["evaluations"],
                        "distinct_nontrivial": v["coverage"]["distinct_nontrivial"],
                        "violations": v["violations"],
                        "tracing_events_formatted": v["coverage"]["tracing_events_formatted"],
                        "tracing_bytes_formatted": v["coverage"]["tracing_bytes_formatted"],
                        "wall_s": v["wall_s"],
                        "seed": v["seed"],
                        "tier": v["tier"],
                    }),
                );
            }
        }
    }
    let _ = GameMode::Osu;
}

pub fn replay(_ctx: &mut Ctx, ext: &str, bytes: &[u8]) -> Result<Option<String>, Fail> {
    #[cfg(feature = "tracing")]
    trace_sink::install();
    let input = if ext == "tape" { gen_input(&mut Tape::new(bytes)) } else { Input { bytes: bytes.to_vec(), family: "replay", sentinel: None } };
    // strict mode: also with a sentinel
    for with_sentinel in [false, true] {
        let mut i2 = Input { bytes: input.bytes.clone(), family: input.family, sentinel: input.sentinel.clone() };
        if with_sentinel && i2.sentinel.is_none() {
            i2.sentinel = add_sentinel(&mut i2.bytes);
        }
        if let Verdict::Fail(m) = check_totality(&i2) {
            return Err(Fail::new(m, "osu", i2.bytes));
        }
    }
    Ok(None)
}
