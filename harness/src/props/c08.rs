//! C08 - the result depends on the bytes only, not on how they are delivered.

use crate::engine::*;
use crate::gen::corpus::*;
use crate::gen::doc::*;
use crate::io::{Schedule, Scripted};
use crate::oracle::cmp::full_diff;
use crate::refmodel::framing::{encode_text, Enc, ENCS};
use rosu_map::{Beatmap, DecodeBeatmap};
use serde_json::json;
use std::io::BufReader;

#[derive(Clone, Debug)]
pub enum Delivery {
    /// native BufRead with a chunk schedule
    Native(Schedule),
    /// BufReader::with_capacity(cap, Read with a chunk schedule)
    Buffered(usize, Schedule),
    FromStr,
    FromPath,
    /// from_path over a named pipe (a path whose metadata reports size 0 but which delivers the bytes)
    FromFifo,
}

fn describe(d: &Delivery) -> String {
    match d {
        Delivery::Native(s) => format!("native BufRead, chunks {:?}{}", &s.chunks[..s.chunks.len().min(12)], if s.interrupts.is_empty() && s.burst.is_none() { String::new() } else { format!(", Interrupted at calls {:?} burst {:?}", s.interrupts, s.burst) }),
        Delivery::Buffered(c, s) => format!("BufReader::with_capacity({c}, ..) over a reader with chunks {:?}{}", &s.chunks[..s.chunks.len().min(12)], if s.interrupts.is_empty() { String::new() } else { format!(", Interrupted at calls {:?}", s.interrupts) }),
        Delivery::FromStr => "from_str".into(),
        Delivery::FromPath => "from_path".into(),
        Delivery::FromFifo => "from_path over a named pipe (mkfifo)".into(),
    }
}

pub struct Delivered {
    pub map: Beatmap,
    pub chunks: usize,
    pub boundary_inside_line: bool,
}

pub fn deliver(bytes: &[u8], d: &Delivery) -> Result<Delivered, String> {
    match d {
        Delivery::Native(s) => {
            let mut r = Scripted::new(bytes, s.clone());
            let map = Beatmap::decode(&mut r).map_err(|e| format!("decode returned Err({e}) although the reader only reported transient interruptions"))?;
            Ok(Delivered { map, chunks: r.chunks_delivered, boundary_inside_line: r.max_window_inside_line })
        }
        Delivery::Buffered(cap, s) => {
            let mut inner = Scripted::new(bytes, s.clone());
            let map = {
                let br = BufReader::with_capacity(*cap, &mut inner);
                Beatmap::decode(br).map_err(|e| format!("decode returned Err({e}) although the reader only reported transient interruptions"))?
            };
            Ok(Delivered { map, chunks: inner.chunks_delivered.max(bytes.len() / (*cap).max(1)), boundary_inside_line: *cap < 16 || inner.max_window_inside_line })
        }
        Delivery::FromStr => {
            let s = std::str::from_utf8(bytes).map_err(|_| "not UTF-8".to_string())?;
            let map = rosu_map::from_str::<Beatmap>(s).map_err(|e| format!("from_str error {e}"))?;
            // the FromStr implementation (`str::parse::<Beatmap>()`) is one more entry point for the same bytes
            let parsed: Beatmap = s.parse().map_err(|e| format!("str::parse::<Beatmap>() error {e}"))?;
            if parsed != map {
                return Err(format!("str::parse::<Beatmap>() decodes differently from rosu_map::from_str: {}", crate::oracle::cmp::full_diff(&parsed, &map).unwrap_or_default()).chars().take(900).collect());
            }
            Ok(Delivered { map, chunks: 1, boundary_inside_line: false })
        }
        Delivery::FromFifo => {
            let map = deliver_fifo(bytes)?;
            Ok(Delivered { map, chunks: 2, boundary_inside_line: false })
        }
        Delivery::FromPath => {
            let dir = crate::engine::verif_dir().join("harness/target/tmp").join(format!("c08-{}", std::process::id()));
            std::fs::create_dir_all(&dir).map_err(|e| format!("tmp dir: {e}"))?;
            // the file name (extension, case, dots, blanks) must not matter
            let h = hash64(bytes);
            let ext = [".osu", ".osb", ".OSB", ".OSU", ".txt", "", ".osu.bak", ".mp3", " .osu", ".osz"][(h % 10) as usize];
            let p = dir.join(format!("{:?}-{:016x}{ext}", std::thread::current().id(), h).replace(['(', ')'], ""));
            std::fs::write(&p, bytes).map_err(|e| format!("tmp write: {e}"))?;
            let r = rosu_map::from_path::<Beatmap>(&p).map_err(|e| format!("from_path error {e}"));
            // the inherent constructors are two more entry points for the same bytes
            let r2 = Beatmap::from_path(&p).map_err(|e| format!("Beatmap::from_path error {e}"));
            let _ = std::fs::remove_file(&p);
            let (map, map2) = (r?, r2?);
            if map2 != map {
                return Err(format!("Beatmap::from_path decodes differently from rosu_map::from_path (file name {:?}): {}", p.file_name(), crate::oracle::cmp::full_diff(&map2, &map).unwrap_or_default()).chars().take(900).collect());
            }
            let map3 = Beatmap::from_bytes(bytes).map_err(|e| format!("Beatmap::from_bytes error {e}"))?;
            if map3 != map {
                return Err(format!("Beatmap::from_bytes decodes differently from rosu_map::from_path: {}", crate::oracle::cmp::full_diff(&map3, &map).unwrap_or_default()).chars().take(900).collect());
            }
            Ok(Delivered { map, chunks: 1, boundary_inside_line: false })
        }
    }
}

/// from_path on a FIFO: a writer thread feeds the bytes while the decoder reads the path
fn deliver_fifo(bytes: &[u8]) -> Result<Beatmap, String> {
    let dir = crate::engine::verif_dir().join("harness/target/tmp").join(format!("c08-{}", std::process::id()));
    std::fs::create_dir_all(&dir).map_err(|e| format!("tmp dir: {e}"))?;
    let p = dir.join(format!("{:?}-{:016x}.fifo", std::thread::current().id(), hash64(bytes)).replace(['(', ')'], ""));
    let _ = std::fs::remove_file(&p);
    let st = std::process::Command::new("mkfifo").arg(&p).status().map_err(|e| format!("mkfifo: {e}"))?;
    if !st.success() {
        return Err("SKIP: mkfifo failed".into());
    }
    let data = bytes.to_vec();
    let wp = p.clone();
    let writer = std::thread::spawn(move || {
        use std::io::Write;
        if let Ok(mut f) = std::fs::OpenOptions::new().write(true).open(&wp) {
            let _ = f.write_all(&data);
        }
    });
    let r = rosu_map::from_path::<Beatmap>(&p).map_err(|e| format!("from_path (fifo) error {e}"));
    // normally the writer is done (the reader saw end of file). If the reader gave up early the writer may still
    // be blocked in open() or write(): give it a moment, then open the pipe without blocking and drain it
    for _ in 0..200 {
        if writer.is_finished() {
            break;
        }
        std::thread::sleep(std::time::Duration::from_millis(5));
    }
    if !writer.is_finished() {
        use std::io::Read;
        use std::os::unix::fs::OpenOptionsExt;
        const O_NONBLOCK: i32 = 0o4000;
        if let Ok(mut f) = std::fs::OpenOptions::new().read(true).custom_flags(O_NONBLOCK).open(&p) {
            let mut sink = [0u8; 65536];
            for _ in 0..2000 {
                if writer.is_finished() {
                    break;
                }
                match f.read(&mut sink) {
                    Ok(0) | Err(_) => std::thread::sleep(std::time::Duration::from_millis(2)),
                    Ok(_) => {}
                }
            }
        }
    }
    let _ = writer.join();
    let _ = std::fs::remove_file(&p);
    r
}

fn check_one(bytes: &[u8], reference: &Beatmap, d: &Delivery) -> Result<Delivered, String> {
    let got = deliver(bytes, d)?;
    if let Some(diff) = full_diff(reference, &got.map) {
        return Err(format!("delivery [{}] decodes differently from from_bytes: {diff}", describe(d)));
    }
    Ok(got)
}

fn gen_schedule(t: &mut Tape) -> Schedule {
    let n = 1 + t.below(12);
    let mut chunks: Vec<usize> = (0..n)
        .map(|_| match t.weighted(&[4, 3, 2, 1]) {
            0 => 1 + t.below(4),
            1 => 1 + t.below(16),
            2 => 1 + t.below(200),
            _ => 1 + t.below(5000),
        })
        .collect();
    // a first chunk shorter than a BOM in a third of the schedules
    if t.chance(33) {
        chunks[0] = 1 + t.below(2);
    }
    let ni = t.below(5);
    let interrupts = (0..ni).map(|_| 1 + t.below(60) as u64).collect();
    let burst = if t.chance(8) { Some((1 + t.below(300) as u64, *t.pick(&[2u64, 30, 1100]))) } else { None };
    Schedule { chunks, interrupts, burst }
}

fn gen_delivery(t: &mut Tape) -> Delivery {
    match t.weighted(&[6, 4, 1]) {
        0 => Delivery::Native(gen_schedule(t)),
        1 => Delivery::Buffered(1 + t.below(16), gen_schedule(t)),
        _ => Delivery::FromPath,
    }
}

/// the random family's input: a document in one encoding, optionally with an odd tail byte, invalid UTF-8
/// sequences and disturbed first bytes
fn gen_random_bytes(t: &mut Tape) -> (String, Enc, Vec<u8>) {
    let text: String = match t.weighted(&[5, 3, 2]) {
        0 => gen_accepted(t, Avoid::NONE, 6).text(),
        1 => gen_hostile(t, 5).text(),
        _ => {
            let s = pick_text(t);
            head_lines(s, 120)
        }
    };
    let enc = ENCS[t.below(4)];
    let mut bytes = encode_text(&text, enc);
    if t.chance(10) {
        bytes.push(t.byte()); // odd tail byte
    }
    if t.chance(12) {
        // invalid or truncated multi-byte sequences (next to valid multi-byte characters): lossy decoding must
        // not depend on where the chunks end
        let n = 1 + t.below(4);
        for _ in 0..n {
            let pos = t.below(bytes.len() + 1);
            let bad: &[u8] = *t.pick(&[&[0xE3u8, 0x81][..], &[0xE3, 0x81, 0xC3, 0xA9], &[0xF0, 0x9F, 0x98], &[0xF0, 0x9F, 0x98, 0xE4, 0xB8, 0x8A], &[0xC3], &[0xC3, 0xC3, 0xA9], &[0x80], &[0xFF], &[0xED, 0xA0, 0x80], &[0xE3, 0x81, 0xF0, 0x9F, 0x98, 0x80]]);
            for (k, b) in bad.iter().enumerate() {
                bytes.insert(pos + k, *b);
            }
        }
    }
    if t.chance(12) {
        // disturb the first bytes: BOM-like prefixes that are no BOM, half BOMs
        let n = 1 + t.below(3);
        for j in 0..n.min(bytes.len()) {
            if t.chance(60) {
                bytes[j] = *t.pick(&[0xEFu8, 0xBB, 0xBF, 0xFF, 0xFE, 0x00, b'o', b'[']);
            }
        }
        if t.chance(40) {
            bytes.insert(0, *t.pick(&[0xEFu8, 0xFF, 0xFE, 0xBB]));
        }
    }
    (text, enc, bytes)
}

/// scale family: (encoding, bytes, delivery)
fn gen_long_case(t: &mut Tape) -> (Enc, Vec<u8>, Delivery) {
    let text = if t.chance(15) { crate::gen::doc::gen_many_lines_doc(t) } else { crate::gen::doc::gen_long_line_doc(t) };
    let enc = ENCS[t.below(4)];
    let bytes = encode_text(&text, enc);
    let big = |t: &mut Tape| *t.pick(&[4095usize, 4096, 4097, 8191, 8192, 8193, 16384, 65535, 65536, 65537, 100_000]);
    let d = match t.below(5) {
        0 => Delivery::Native(Schedule::fixed(big(t))),
        1 => Delivery::Buffered(big(t), Schedule::fixed(1 + t.below(9000))),
        2 => Delivery::Native(Schedule::fixed(1 + t.below(64))),
        3 => Delivery::FromPath,
        _ => gen_delivery(t),
    };
    (enc, bytes, d)
}

fn sources(quick: bool) -> Vec<(String, String)> {
    let mut v = vec![];
    for b in bundled() {
        let text = if b.bytes.len() > 8192 {
            if quick {
                head_lines(&b.text, 400)
            } else {
                b.text.clone()
            }
        } else {
            b.text.clone()
        };
        v.push((b.name.clone(), text));
    }
    v
}

fn line_count(bytes: &[u8]) -> usize {
    bytes.iter().filter(|b| **b == b'\n').count()
}

pub fn run(ctx: &mut Ctx) {
    ctx.rule = "cases are (file, delivery): bundled files (large ones cut to 400 lines in the quick tier) and generated documents in the four encodings x {every fixed chunk size 1..64 through a native BufRead, BufReader::with_capacity(1..16) over a chunked Read, random variable chunk schedules (first chunk of 1 or 2 bytes forced in a third of them), random placements of Interrupted on fill_buf / read, from_str and str::parse for UTF-8, from_path / Beatmap::from_path through a temporary file and through a named pipe}. The scripted reader honours the BufRead contract (repeated fill_buf without consume returns the same slice). Oracle: every delivery yields a Beatmap equal (==, plus requested slider lengths) to from_bytes's. Non-trivial = file of >= 3 lines delivered in >= 2 chunks with a boundary inside a line; distinct by hash(file, schedule).".into();
    crate::props::replay_regress_generic(ctx, replay);
    let quick = ctx.tier == Tier::Quick;
    let srcs = sources(quick);
    // exhaustive: files x encodings x fixed chunk sizes 1..64 (native) and BufReader capacities 1..16
    let per_file = 4 * (64 + 16 + 3);
    ctx.enumerate("bundled files x 4 encodings x {fixed chunk size 1..64, BufReader capacity 1..16, from_str, from_path on a file, from_path on a named pipe}", srcs.len() as u64 * per_file, |i, st| {
        let (name, text) = &srcs[(i / per_file) as usize];
        let j = i % per_file;
        let enc = ENCS[(j / 83) as usize];
        let k = (j % 83) as usize;
        let bytes = encode_text(text, enc);
        // the large maps are only delivered with a few sizes per encoding in the quick tier
        if bytes.len() > 100_000 && quick && !(k < 4 || k == 64 || k == 65 || k >= 80) {
            return Ok(());
        }
        let d = if k < 64 {
            Delivery::Native(Schedule::fixed(k + 1))
        } else if k < 80 {
            Delivery::Buffered(k - 63, Schedule::fixed(7))
        } else if k == 80 {
            if enc != Enc::Utf8 && enc != Enc::Utf8Bom {
                return Ok(());
            }
            Delivery::FromStr
        } else if k == 81 {
            Delivery::FromPath
        } else {
            Delivery::FromFifo
        };
        st.eval();
        let reference = rosu_map::from_bytes::<Beatmap>(&bytes).map_err(|e| Fail::new(format!("from_bytes error {e}"), "osu", bytes.clone()))?;
        match check_one(&bytes, &reference, &d) {
            Err(m) if m.starts_with("SKIP:") => {
                st.exclude("named pipe not available");
                Ok(())
            }
            Ok(got) => {
                if line_count(&bytes) >= 3 && got.chunks >= 2 && got.boundary_inside_line {
                    st.nontrivial_distinct();
                    if i % 1013 == 5 {
                        st.sample(|| json!({"file": name, "encoding": enc.name(), "delivery": describe(&d)}));
                    }
                }
                Ok(())
            }
            Err(m) => Err(Fail::json(m.clone(), &json!({"file": name, "encoding": enc.name(), "delivery": describe(&d), "bytes_hex_prefix": bytes.iter().take(64).map(|b| format!("{b:02x}")).collect::<String>(), "message": m}))),
        }
    });

    // content that starts like a BOM but is none (EF x, EF BB x, FF x, FE x ...), delivered in tiny chunks
    const PREFIXES: &[&[u8]] = &[&[0xEF], &[0xEF, 0xBB], &[0xEF, 0xBB, 0x41], &[0xEF, 0x41], &[0xFF], &[0xFE], &[0xFF, 0x41], &[0xFE, 0x41], &[0xFF, 0xFF], &[0xFE, 0xFE], &[0xEF, 0xBB, 0xBF, 0xEF], &[0xBB, 0xBF], &[0xEF, 0xBF], &[],
        // a BOM followed by further U+FEFF characters (only one is a BOM)
        &[0xEF, 0xBB, 0xBF, 0xEF, 0xBB, 0xBF], &[0xEF, 0xBB, 0xBF, 0xEF, 0xBB, 0xBF, 0xEF, 0xBB, 0xBF], &[0xFF, 0xFE, 0xFF, 0xFE], &[0xFE, 0xFF, 0xFE, 0xFF]];
    let bodies: Vec<Vec<u8>> = vec![
        b"osu file format v9\n\n[General]\nMode: 2\n\n[Metadata]\nTitle: t\n".to_vec(),
        b"\n\nosu file format v7\n[Difficulty]\nCircleSize:3\n".to_vec(),
        b"[HitObjects]\n100,100,1000,1,0\n".to_vec(),
        b"".to_vec(),
        b"x".to_vec(),
        encode_text("osu file format v12\n[Metadata]\nArtist:\u{4e0a}\n", Enc::Utf16Le)[2..].to_vec(),
    ];
    let per = 25u64; // native chunk sizes 1..12, BufReader capacities 1..12, from_str / str::parse
    ctx.enumerate("BOM-like prefixes (incl. repeated BOMs) x small bodies x {chunk sizes / capacities 1..12, from_str + str::parse}", PREFIXES.len() as u64 * bodies.len() as u64 * per, |i, st| {
        let k = (i % per) as usize;
        let body = &bodies[((i / per) % bodies.len() as u64) as usize];
        let prefix = PREFIXES[(i / per / bodies.len() as u64) as usize];
        let mut bytes = prefix.to_vec();
        bytes.extend_from_slice(body);
        let d = if k < 12 {
            Delivery::Native(Schedule::fixed(k + 1))
        } else if k < 24 {
            Delivery::Buffered(k - 11, Schedule::fixed(5))
        } else {
            if std::str::from_utf8(&bytes).is_err() {
                return Ok(());
            }
            Delivery::FromStr
        };
        st.eval();
        let reference = rosu_map::from_bytes::<Beatmap>(&bytes).map_err(|e| Fail::new(format!("from_bytes error {e}"), "osu", bytes.clone()))?;
        match check_one(&bytes, &reference, &d) {
            Ok(got) => {
                if got.chunks >= 2 {
                    st.nontrivial_distinct();
                }
                Ok(())
            }
            Err(m) => Err(Fail::new(m, "osu", bytes)),
        }
    });

    let cases = ctx.tier.pick(300_000u64, 3_000_000u64);
    ctx.pbt("c08-random", cases, 2600, |t, st| {
        let (text, enc, bytes) = gen_random_bytes(t);
        let d = gen_delivery(t);
        st.eval();
        let reference = match rosu_map::from_bytes::<Beatmap>(&bytes) {
            Ok(m) => m,
            Err(e) => return Err(Fail::new(format!("from_bytes error {e}"), "osu", bytes)),
        };
        match check_one(&bytes, &reference, &d) {
            Ok(got) => {
                st.label(match enc {
                    Enc::Utf8 => "enc:utf8",
                    Enc::Utf8Bom => "enc:utf8-bom",
                    Enc::Utf16Le => "enc:utf16le",
                    Enc::Utf16Be => "enc:utf16be",
                });
                match &d {
                    Delivery::Native(s) | Delivery::Buffered(_, s) => {
                        st.label(match s.chunks[0] {
                            1 => "first chunk 1 byte",
                            2 => "first chunk 2 bytes",
                            3 => "first chunk 3 bytes",
                            _ => "first chunk > 3 bytes",
                        });
                        if !s.interrupts.is_empty() {
                            st.label("with Interrupted");
                        }
                    }
                    _ => st.label("from_path"),
                }
                if line_count(&bytes) >= 3 && got.chunks >= 2 && got.boundary_inside_line {
                    let fresh = st.nontrivial(hash64(&(&bytes, format!("{d:?}"))));
                    if fresh && bytes.len() < 600 {
                        st.sample(|| json!({"text": text, "encoding": enc.name(), "delivery": describe(&d)}));
                    }
                }
                Ok(())
            }
            Err(m) => {
                let hex: String = t.all_bytes().iter().map(|b| format!("{b:02x}")).collect();
                Err(Fail::json(m.clone(), &json!({"text": text, "encoding": enc.name(), "delivery": describe(&d), "message": m, "replay_tape_hex": hex})))
            }
        }
    });
    // scale: documents with one very long line (4 K .. 200 K characters) or very many lines, delivered in small,
    // buffer-sized (4 KiB, 8 KiB, 64 KiB +-1) and random chunks
    let cases = ctx.tier.pick(160u64, 1_600u64);
    ctx.pbt("c08-long-lines", cases, 300, |t, st| {
        let (enc, bytes, d) = gen_long_case(t);
        st.eval();
        st.label("very long line / very many lines");
        let reference = rosu_map::from_bytes::<Beatmap>(&bytes).map_err(|e| Fail::new(format!("from_bytes error {e}"), "osu", bytes.clone()))?;
        match check_one(&bytes, &reference, &d) {
            Ok(got) => {
                if got.chunks >= 2 {
                    st.nontrivial(hash64(&(&bytes, format!("{d:?}"))));
                }
                Ok(())
            }
            Err(m) => {
                let m: String = m.chars().take(1500).collect();
                let hex: String = t.all_bytes().iter().map(|b| format!("{b:02x}")).collect();
                Err(Fail::json(m.clone(), &json!({"family": "long-lines", "encoding": enc.name(), "delivery": describe(&d), "message": m, "long_tape_hex": hex})))
            }
        }
    });
    let _ = std::fs::remove_dir_all(crate::engine::verif_dir().join("harness/target/tmp").join(format!("c08-{}", std::process::id())));
}

fn replay_tape(tape: &[u8]) -> Result<Option<String>, Fail> {
    let mut t = Tape::new(tape);
    let (_text, _enc, bytes) = gen_random_bytes(&mut t);
    let d = gen_delivery(&mut t);
    let reference = rosu_map::from_bytes::<Beatmap>(&bytes).map_err(|e| Fail::new(format!("from_bytes error {e}"), "osu", bytes.clone()))?;
    check_one(&bytes, &reference, &d).map(|_| None).map_err(|m| Fail::new(m, "osu", bytes))
}

pub fn replay(_ctx: &mut Ctx, ext: &str, bytes: &[u8]) -> Result<Option<String>, Fail> {
    if ext == "tape" {
        return replay_tape(bytes);
    }
    if ext == "json" {
        let v: serde_json::Value = serde_json::from_slice(bytes).map_err(|e| Fail::new(format!("bad JSON {e}"), "json", bytes.to_vec()))?;
        if let Some(hex) = v["long_tape_hex"].as_str() {
            let tape: Vec<u8> = (0..hex.len() / 2).filter_map(|i| u8::from_str_radix(&hex[2 * i..2 * i + 2], 16).ok()).collect();
            let (_enc, data, d) = gen_long_case(&mut Tape::new(&tape));
            let reference = rosu_map::from_bytes::<Beatmap>(&data).map_err(|e| Fail::new(format!("from_bytes error {e}"), "osu", data.clone()))?;
            return check_one(&data, &reference, &d).map(|_| None).map_err(|m| Fail::new(m.chars().take(1500).collect::<String>(), "json", bytes.to_vec()));
        }
        if let Some(hex) = v["replay_tape_hex"].as_str() {
            let tape: Vec<u8> = (0..hex.len() / 2).filter_map(|i| u8::from_str_radix(&hex[2 * i..2 * i + 2], 16).ok()).collect();
            return replay_tape(&tape);
        }
        // an enumerated case: file + encoding; try every systematic delivery on it
        let name = v["file"].as_str().unwrap_or("");
        let enc = ENCS.iter().copied().find(|e| Some(e.name()) == v["encoding"].as_str()).unwrap_or(Enc::Utf8);
        let Some(b) = bundled().iter().find(|b| b.name == name) else {
            return Err(Fail::new("unknown bundled file in replay", "json", bytes.to_vec()));
        };
        let data = encode_text(&b.text, enc);
        return replay(_ctx, "osu", &data);
    }
    // a plain file: every fixed chunk size 1..64, capacities 1..16, from_path
    let reference = rosu_map::from_bytes::<Beatmap>(bytes).map_err(|e| Fail::new(format!("from_bytes error {e}"), "osu", bytes.to_vec()))?;
    let mut ds: Vec<Delivery> = (1..=64).map(|k| Delivery::Native(Schedule::fixed(k))).collect();
    ds.extend((1..=16).map(|c| Delivery::Buffered(c, Schedule::fixed(7))));
    ds.push(Delivery::Native(Schedule { chunks: vec![2, 1, 5], interrupts: vec![1, 2, 5, 9], burst: None }));
    ds.push(Delivery::FromPath);
    for d in ds {
        check_one(bytes, &reference, &d).map_err(|m| Fail::new(m, "osu", bytes.to_vec()))?;
    }
    Ok(None)
}
