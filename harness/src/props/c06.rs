//! C06 - a rejected line has no effect on the result.

use crate::engine::*;
use crate::gen::corpus::*;
use crate::gen::doc::*;
use crate::oracle::cmp::full_diff_with_curves;
use crate::refmodel::framing::{decode_bytes, frame, rejected_in_trace, split_lines};
use rosu_map::section::Section;
use rosu_map::Beatmap;
use serde_json::json;

const BAD: &[&str] = &["x", "", "NaN", "2147483648", "-2147483648", "1e99", "inf", "0x10", "131073", "9001", "1,5", "256", "abc", " ", "|", ":", "-", "1e400"];

/// corrupt one record so that (most of the time) its parser rejects it after partial progress
fn corrupt_line(t: &mut Tape, sec: SecName, line: &str) -> String {
    let fields: Vec<String> = line.split(',').map(|s| s.to_string()).collect();
    match sec {
        SecName::HitObjects if line.contains('|') && t.chance(60) => {
            // deep inside the slider path / node lists
            let mut f = fields.clone();
            if f.len() > 5 {
                let mut toks: Vec<String> = f[5].split('|').map(|s| s.to_string()).collect();
                let k = t.below(toks.len());
                match t.below(5) {
                    0 => toks[k] = format!("{}:x", t.int(0, 512)),
                    1 => toks[k] = format!("{}", t.int(0, 512)), // missing ':'
                    2 => toks[k] = String::new(),                // empty token
                    3 => toks.push((*t.pick(&["B", "L", "P", "C"])).to_string()), // a later segment without any vertex
                    _ => toks[k] = "131073:0".to_string(),
                }
                f[5] = toks.join("|");
                if t.chance(30) && f.len() > 6 {
                    f[6] = "9001".into();
                }
                if f.len() > 9 && t.chance(30) {
                    f[9] = (*t.pick(&["1:x", "x:1", "1", "0:0|q:1"])).to_string();
                }
            }
            f.join(",")
        }
        SecName::Colours => {
            let (k, _) = line.split_once(':').unwrap_or((line, ""));
            format!("{k}: {}", t.pick(&["1,2", "1,2,3,4,5", "256,0,0", "a,b,c", "-1,2,3", "", "1,2,x"]))
        }
        SecName::Events if t.chance(50) => (*t.pick(&["7,0,\"x.png\"", "Bogus,0,1", "2,x,100", "2,100,y", "4,0,0", "2,100", "0", "Sprite,a,b", "2,NaN,5", "2,5,NaN"])).to_string(),
        SecName::General | SecName::Editor | SecName::Metadata | SecName::Difficulty => {
            let (k, _) = line.split_once(':').unwrap_or((line, ""));
            format!("{k}: {}", t.pick(BAD))
        }
        _ => {
            let mut f = fields;
            match t.below(5) {
                0 if f.len() > 1 => {
                    let k = t.below(f.len());
                    f.remove(k);
                }
                1 if f.len() > 1 => {
                    let i = t.below(f.len());
                    let j = t.below(f.len());
                    f.swap(i, j);
                }
                2 => {
                    let k = t.below(f.len());
                    f[k].push_str(*t.pick(&["x", "e", ".", "-", " 1"]));
                }
                _ => {
                    let k = t.below(f.len());
                    f[k] = (*t.pick(BAD)).to_string();
                }
            }
            f.join(",")
        }
    }
}

pub struct Outcome {
    pub rejected: usize,
    pub nontrivial: bool,
    pub sections: Vec<Section>,
}

fn dec(text: &str) -> Result<Beatmap, String> {
    rosu_map::from_str::<Beatmap>(text).map_err(|e| format!("decode error {e}"))
}

fn without(lines: &[&str], drop: &[usize]) -> String {
    let mut out = String::new();
    for (i, l) in lines.iter().enumerate() {
        if !drop.contains(&i) {
            out.push_str(l);
            out.push('\n');
        }
    }
    out
}

pub fn evaluate(text: &str) -> Result<Outcome, String> {
    let fr = frame(text);
    let rej = rejected_in_trace(fr.version, &fr.trace);
    let lines = split_lines(text);
    let rejected_lines: Vec<usize> = fr.trace_lines.iter().zip(&rej).filter(|(_, r)| **r).map(|(i, _)| *i).collect();
    let mut nontrivial = false;
    let mut sections = vec![];
    for (k, r) in rej.iter().enumerate() {
        if *r {
            let sec = fr.trace[k].0;
            if !sections.contains(&sec) {
                sections.push(sec);
            }
            if fr.trace[k + 1..].iter().zip(&rej[k + 1..]).any(|((s, _), r2)| *s == sec && !*r2) {
                nontrivial = true;
            }
        }
    }
    if rejected_lines.is_empty() {
        return Ok(Outcome { rejected: 0, nontrivial: false, sections });
    }
    let base_text = without(&lines, &[]);
    let base = dec(&base_text)?;
    let all = dec(&without(&lines, &rejected_lines))?;
    if let Some(d) = full_diff_with_curves(&base, &all) {
        return Err(format!("removing all {} rejected lines changes the result: {d}\n rejected lines: {:?}", rejected_lines.len(), rejected_lines.iter().map(|i| lines[*i]).collect::<Vec<_>>()));
    }
    for &i in rejected_lines.iter().take(8) {
        let one = dec(&without(&lines, &[i]))?;
        if let Some(d) = full_diff_with_curves(&base, &one) {
            return Err(format!("removing the rejected line {:?} changes the result: {d}", lines[i]));
        }
    }
    Ok(Outcome { rejected: rejected_lines.len(), nontrivial, sections })
}

pub fn gen_case(t: &mut Tape) -> (String, &'static str) {
    match t.weighted(&[6, 2, 2, 2, 2]) {
        3 => {
            // timing sections over a small pool of times with many rejected lines (C12's generator)
            let c = crate::props::c12::gen_case(t, false);
            (c.text(), "hostile timing section")
        }
        4 => {
            // hit-object sections with hostile lines (C14's generator) under a timing section
            let lines = crate::props::c14::gen_lines(t);
            (format!("osu file format v14\n\n[TimingPoints]\n0,500,4,2,1,60,1,0\n\n[HitObjects]\n{}\n", lines.join("\n")), "hostile hit-object section")
        }
        0 => {
            let mut doc = gen_accepted(t, Avoid::NONE, 7);
            let n = 1 + t.below(4);
            for _ in 0..n {
                let si = t.below(doc.sections.len());
                let name = doc.sections[si].name;
                let sec = &mut doc.sections[si];
                if sec.lines.is_empty() {
                    continue;
                }
                let li = t.below(sec.lines.len());
                let bad = corrupt_line(t, name, &sec.lines[li]);
                if t.chance(50) {
                    sec.lines[li] = bad;
                } else {
                    sec.lines.insert(li, bad);
                }
            }
            (doc.text(), "corrupted accepted doc")
        }
        1 => (gen_hostile(t, 6).text(), "hostile doc"),
        _ => {
            let base = pick_text(t);
            (mutate_text(t, base), "mutated bundled")
        }
    }
}

fn sec_label(s: Section) -> &'static str {
    match s {
        Section::General => "rejected in General",
        Section::Editor => "rejected in Editor",
        Section::Metadata => "rejected in Metadata",
        Section::Difficulty => "rejected in Difficulty",
        Section::Events => "rejected in Events",
        Section::TimingPoints => "rejected in TimingPoints",
        Section::Colors => "rejected in Colours",
        Section::HitObjects => "rejected in HitObjects",
        _ => "rejected elsewhere",
    }
}

pub fn run(ctx: &mut Ctx) {
    ctx.rule = "cases are files: accepted-mode documents with 1..4 corrupted records (field deleted / swapped / overflowed / NaN / garbage appended, unknown event type, colours with 2 or 5+ components, corruption in the k-th token of a multi-segment slider path: bad coordinate, missing ':', empty token, trailing type letter, bad node-bank entry, repeat count 9001), hostile documents and mutated bundled maps. Which lines are rejected *at their position* is learned by replaying the framing model's trace through Beatmap's public parse_* functions. Oracle: decode(x) == decode(x without all rejected lines) and == decode(x without that line) for up to 8 rejected lines individually; equality of the full Beatmap plus requested slider lengths and computed curves. Non-trivial = a rejected line is followed by an accepted line of the same section; distinct by text hash.".into();
    crate::props::replay_regress_generic(ctx, replay);
    let files = bundled();
    ctx.enumerate("every bundled map", files.len() as u64, |i, st| {
        st.eval();
        let text = &files[i as usize].text;
        match evaluate(text) {
            Ok(o) => {
                if o.nontrivial {
                    st.nontrivial_distinct();
                }
                Ok(())
            }
            Err(m) => Err(Fail::new(m, "osu", text.as_bytes().to_vec())),
        }
    });
    let cases = ctx.tier.pick(500_000u64, 4_000_000u64);
    ctx.pbt("c06-random", cases, 2600, |t, st| {
        let (text, family) = gen_case(t);
        st.eval();
        match evaluate(&text) {
            Ok(o) => {
                st.label(&format!("family:{family}"));
                st.label(match o.rejected {
                    0 => "no rejected line",
                    1 => "1 rejected line",
                    _ => ">= 2 rejected lines",
                });
                for s in &o.sections {
                    st.label(sec_label(*s));
                }
                if o.nontrivial {
                    let fresh = st.nontrivial(hash64(&text));
                    if fresh && text.len() < 1200 {
                        st.sample(|| json!(text));
                    }
                }
                Ok(())
            }
            Err(m) => Err(Fail::new(m, "osu", text.into_bytes())),
        }
    });
    // scale: very many rejected lines, a very long (accepted or rejected) line, big sliders, hostile geometry
    let cases = ctx.tier.pick(150u64, 1_500u64);
    ctx.pbt("c06-scale", cases, 400, |t, st| {
        let (text, family) = crate::gen::doc::gen_scale_doc(t);
        st.eval();
        match evaluate(&text) {
            Ok(o) => {
                st.label(&format!("family:{family}"));
                if o.nontrivial {
                    st.nontrivial(hash64(&text));
                }
                Ok(())
            }
            Err(m) => Err(Fail::new(m.chars().take(1500).collect::<String>(), "osu", text.into_bytes())),
        }
    });
}

pub fn replay(_ctx: &mut Ctx, ext: &str, bytes: &[u8]) -> Result<Option<String>, Fail> {
    let text = if ext == "tape" { gen_case(&mut Tape::new(bytes)).0 } else { decode_bytes(bytes) };
    evaluate(&text).map(|_| None).map_err(|m| Fail::new(m, "osu", text.into_bytes()))
}
