//! C15 - map-level processing of hit objects: order, combos, velocity, sample defaults, time shifts.

use crate::engine::*;
use crate::refmodel::ctrlpoints::Lists;
use crate::refmodel::hitobj::{self as ho, apply_point, LineCtx, MKind, MObj};
use crate::refmodel::timing::Model as TimingModel;
use rosu_map::section::general::GameMode;
use rosu_map::section::hit_objects::{CurveBuffers, HitObjectKind, HitObjects};
use serde_json::{json, Value};

pub const K6: &str = "c15.negative_zero_time";

#[derive(Clone, Debug)]
pub struct Doc {
    /// format version of the header line (map-level processing does not depend on it)
    pub ver: i32,
    /// section order: 0 canonical; 1 [Difficulty] after [HitObjects]; 2 a first [Difficulty] with another multiplier in
    /// the canonical place and the effective one after [HitObjects]; 3 [TimingPoints] after [HitObjects];
    /// 4 [Events] after [HitObjects] (map-level processing happens after the whole file has been read)
    pub order: u8,
    /// contains times that are not multiples of 1/8 ms: only the unshifted document is judged
    pub exact_only: bool,
    pub mode: u8,
    pub sm: &'static str,
    /// (time, rest of the line)
    pub tps: Vec<(f64, String)>,
    pub breaks: Vec<(f64, f64)>,
    /// (time, end time, "x,y", rest with `{E}` for the end time)
    pub objs: Vec<(f64, Option<f64>, String, String)>,
}

fn ft(x: f64) -> String {
    format!("{x}")
}

/// t + k, but a shift of zero keeps the sign of -0
fn sh(t: f64, k: f64) -> f64 {
    if k == 0.0 {
        t
    } else {
        t + k
    }
}

pub fn render(d: &Doc, k: f64) -> String {
    let mut s = format!("osu file format v{}\n\n[General]\nMode: {}\n", d.ver, d.mode);
    let difficulty = format!("\n[Difficulty]\nSliderMultiplier:{}\n", d.sm);
    let mut events = String::from("\n[Events]\n");
    for (a, b) in &d.breaks {
        events.push_str(&format!("2,{},{}\n", ft(sh(*a, k)), ft(sh(*b, k))));
    }
    let mut timing = String::from("\n[TimingPoints]\n");
    for (t, rest) in &d.tps {
        timing.push_str(&format!("{},{rest}\n", ft(sh(*t, k))));
    }
    let mut objects = String::from("\n[HitObjects]\n");
    for (t, e, pre, rest) in &d.objs {
        objects.push_str(&format!("{pre},{},{}\n", ft(sh(*t, k)), rest.replace("{E}", &e.map_or(String::new(), |e| ft(sh(e, k))))));
    }
    match d.order {
        1 => { s.push_str(&events); s.push_str(&timing); s.push_str(&objects); s.push_str(&difficulty); }
        2 => {
            s.push_str(if d.sm == "0.7" { "\n[Difficulty]\nSliderMultiplier:2.3\n" } else { "\n[Difficulty]\nSliderMultiplier:0.7\n" });
            s.push_str(&events); s.push_str(&timing); s.push_str(&objects); s.push_str(&difficulty);
        }
        3 => { s.push_str(&difficulty); s.push_str(&events); s.push_str(&objects); s.push_str(&timing); }
        4 => { s.push_str(&difficulty); s.push_str(&timing); s.push_str(&objects); s.push_str(&events); }
        _ => { s.push_str(&difficulty); s.push_str(&events); s.push_str(&timing); s.push_str(&objects); }
    }
    s
}

fn eighth(t: &mut Tape, lo: i64, hi: i64) -> f64 {
    t.int(lo, hi) as f64 / 8.0
}

pub fn gen_doc(t: &mut Tape) -> Doc {
    let mode = t.below(4) as u8;
    let sm = *t.pick(&["1.4", "0.4", "3.6", "2", "1", "0.7"]);
    let mut tps = vec![];
    let mut time = eighth(t, -200, 200);
    let ntp = t.below(8);
    for _ in 0..ntp {
        if t.chance(75) {
            time += eighth(t, 0, 40000);
        }
        let uninh = t.chance(40);
        let bl = if uninh { *t.pick(&["500", "300", "1000", "6", "60000", "333.25", "250"]) } else { *t.pick(&["-100", "-50", "-200", "-1000", "-5", "-2000", "-10", "-133.25", "-100"]) };
        tps.push((time, format!("{bl},4,{},{},{},{},{}", t.below(4), t.pick(&[0, 0, 1, 2, 3]), t.pick(&[100, 60, 0, 30]), uninh as u8, t.below(2))));
    }
    let mut breaks = vec![];
    let mut bt = eighth(t, 0, 40000);
    let nb = t.below(4);
    for _ in 0..nb {
        let e = bt + eighth(t, 0, 16000);
        breaks.push((bt, e));
        if t.chance(15) {
            // a break nested inside the previous one (end times not ascending in file order)
            let s2 = bt + eighth(t, 0, 800);
            breaks.push((s2, (s2 + eighth(t, 0, 4000)).min(e - 0.125).max(s2)));
        }
        bt = e + 1.0 + eighth(t, 0, 40000);
    }
    if breaks.len() >= 2 && t.chance(12) {
        // break lines out of file order
        let (i, j) = (t.below(breaks.len()), t.below(breaks.len()));
        breaks.swap(i, j);
    }
    let mut objs = vec![];
    let nobj = t.below(9);
    for i in 0..nobj {
        let time = if t.chance(20) && !tps.is_empty() {
            // around a control point, to hit the 5 ms leniency edge
            let tp = tps[t.below(tps.len())].0;
            tp + *t.pick(&[-6.0, -5.0, -4.0, 0.0, 5.0, -5.125, -4.875])
        } else if t.chance(15) && !breaks.is_empty() {
            breaks[t.below(breaks.len())].1 + *t.pick(&[0.0, 0.125, -0.125, 1.0])
        } else if t.chance(10) && !objs.is_empty() {
            let o: &(f64, Option<f64>, String, String) = &objs[t.below(objs.len())];
            o.0 // equal times: file order must be kept
        } else {
            eighth(t, 0, 120000)
        };
        let x = 8 * (i + 1); // the file index, so that the order can be observed
        let nc: u32 = if t.chance(30) { 4 } else { 0 } | ((t.below(8) as u32) << 4);
        let sound = t.below(16);
        let ex = *t.pick(&["", ",0:0:0:0:", ",1:2:0:0:", ",2:0:3:70:", ",0:3:0:0:f.wav", ",3:1", ",0:0:0:40:"]);
        match t.below(10) {
            0..=3 => objs.push((time, None, format!("{x},100"), format!("{},{sound}{ex}", 1 | nc))),
            4..=7 => {
                let path = *t.pick(&["L|300:100", "B|200:200|300:100", "P|150:180|300:100", "C|120:60|260:140|300:100", "L|108:100", "B|200:200|B|300:100|400:200"]);
                let rep = *t.pick(&[1, 1, 2, 3]);
                let len = *t.pick(&["100", "250.5", "40", "", "140", "70"]);
                let mut rest = format!("{},{sound},{path},{rep}", 2 | nc);
                if !len.is_empty() {
                    rest.push(',');
                    rest.push_str(len);
                    if t.chance(60) {
                        rest.push_str(&format!(",{}", (0..=rep).map(|_| t.below(16).to_string()).collect::<Vec<_>>().join("|")));
                        if t.chance(70) {
                            rest.push_str(&format!(
                                ",{}",
                                (0..=rep)
                                    .map(|_| {
                                        if t.chance(25) {
                                            // a node set that also specifies custom index / volume / file name
                                            format!("{}:{}:{}:{}:{}", t.below(4), t.below(4), t.below(4), t.pick(&[0, 40, 70, 100]), t.pick(&["", "", "n.wav"]))
                                        } else {
                                            format!("{}:{}", t.below(4), t.below(4))
                                        }
                                    })
                                    .collect::<Vec<_>>()
                                    .join("|")
                            ));
                            if t.chance(60) {
                                rest.push_str(ex);
                            }
                        }
                    }
                }
                objs.push((time, None, format!("{x},100"), rest));
            }
            8 => {
                let e = time + eighth(t, 0, 16000);
                objs.push((time, Some(e), format!("{x},100"), format!("{},{sound},{{E}}{ex}", 8 | (nc & 4))));
            }
            _ => {
                let e = time + eighth(t, 0, 16000);
                let exs = if ex.is_empty() { String::new() } else { format!(":{}", &ex[1..]) };
                objs.push((time, Some(e), format!("{x},100"), format!("128,{sound},{{E}}{exs}")));
            }
        }
    }
    if t.chance(60) {
        objs.sort_by(|a, b| a.0.total_cmp(&b.0));
    }
    // many objects on few distinct times (a sorting routine that is only stable for short lists shows here)
    let mut exact_only = false;
    if t.chance(8) {
        let n = 22 + t.below(50);
        let base = objs.len();
        let pool: [f64; 3] = match t.below(4) {
            // distinct times that collide when rounded to f32 (integers above 2^24)
            0 => {
                let b = *t.pick(&[16777216.0f64, 33554432.0, 134217728.0, 20000000.0]);
                [b, b + 1.0, b + 2.0 + t.below(3) as f64]
            }
            // distinct times closer than f64::EPSILON to each other (such a document is only judged unshifted)
            1 => {
                exact_only = true;
                [0.0, 1.5e-16, 3e-16]
            }
            _ => [eighth(t, 0, 80000), eighth(t, 0, 80000), eighth(t, 0, 80000)],
        };
        for j in 0..n {
            let time = pool[t.below(3)];
            let x = 8 * (base + j + 1);
            objs.push((time, None, format!("{x},100"), format!("1,{}", t.below(16))));
        }
    }
    Doc { ver: 14, order: 0, exact_only, mode, sm, tps, breaks, objs }
}

fn close(a: f64, b: f64) -> bool {
    a == b || (a - b).abs() <= 1e-9 * a.abs().max(b.abs()).max(1.0)
}

fn sample_defaults(lists: &Lists, time: f64) -> (u8, i32, i32) {
    lists.sample_at(time).map_or((1, 100, 0), |s| (s.bank, s.vol, s.idx))
}

pub struct Outcome {
    pub nontrivial: bool,
    pub sliders: usize,
    pub near_edge: bool,
}

/// rules (1)-(4): the decoded objects equal the reference pipeline's
pub fn check_rules(d: &Doc, k: f64) -> Result<(HitObjects, Outcome), String> {
    let txt = render(d, k);
    let mut got: HitObjects = rosu_map::from_str(&txt).map_err(|e| format!("decode error {e}"))?;
    // reference pipeline
    let mut tm = TimingModel::new(d.mode, 0, 100);
    for (t, rest) in &d.tps {
        tm.line(&format!("{},{rest}", ft(sh(*t, k))));
    }
    tm.flush();
    let lists = tm.lists;
    let mut ctx = LineCtx::default();
    let mut objs: Vec<MObj> = vec![];
    for (t, e, pre, rest) in &d.objs {
        let line = format!("{pre},{},{}", ft(sh(*t, k)), rest.replace("{E}", &e.map_or(String::new(), |e| ft(sh(e, k)))));
        match ho::parse_line(&mut ctx, &line) {
            Some(o) => objs.push(o),
            None => return Err(format!("generator produced a line the reference grammar rejects: {line}")),
        }
    }
    // (1) stable order by start time: equal times (numerically, so -0 == 0) keep the file order
    objs.sort_by(|a, b| a.time.partial_cmp(&b.time).unwrap());
    if got.hit_objects.len() != objs.len() {
        return Err(format!("{} objects decoded, {} lines accepted", got.hit_objects.len(), objs.len()));
    }
    let order_got: Vec<f32> = got
        .hit_objects
        .iter()
        .map(|h| match &h.kind {
            HitObjectKind::Circle(c) => c.pos.x,
            HitObjectKind::Slider(s) => s.pos.x,
            HitObjectKind::Hold(h) => h.pos_x,
            HitObjectKind::Spinner(_) => -1.0,
        })
        .collect();
    let order_want: Vec<f32> = objs
        .iter()
        .map(|o| match &o.kind {
            MKind::Circle { x, .. } | MKind::Slider { x, .. } | MKind::Hold { x, .. } => *x,
            MKind::Spinner { .. } => -1.0,
        })
        .collect();
    if order_got != order_want {
        return Err(format!("objects are not in stable start-time order: file indices (x/8) {:?}, expected {:?}", order_got, order_want));
    }
    for w in got.hit_objects.windows(2) {
        if w[0].start_time > w[1].start_time {
            return Err("start times decrease".into());
        }
    }
    // (2) the first object after each break starts a new combo
    let mut cb = 0usize;
    let breaks: Vec<(f64, f64)> = d.breaks.iter().map(|(a, b)| (a + k, (b + k).max(a + k))).collect();
    for o in objs.iter_mut() {
        let mut force = false;
        while cb < breaks.len() && breaks[cb].1 < o.time {
            force = true;
            cb += 1;
        }
        match &mut o.kind {
            MKind::Circle { nc, .. } | MKind::Slider { nc, .. } | MKind::Spinner { nc, .. } => *nc |= force,
            MKind::Hold { .. } => {}
        }
    }
    // (3) velocity / duration closed forms, (4) sample defaults 5 ms after the end / each node
    let sm: f64 = d.sm.parse().unwrap();
    let mut bufs = CurveBuffers::default();
    let mut sliders = 0;
    let mut near_edge = false;
    let edge = |time: f64, near: &mut bool| {
        for s in &lists.s {
            let dlt = (time - s.time).abs();
            if dlt > 0.0 && dlt < 1e-6 {
                *near = true;
            }
        }
    };
    for (i, (o, h)) in objs.iter_mut().zip(got.hit_objects.iter_mut()).enumerate() {
        let start = o.time;
        let end = match (&mut o.kind, &mut h.kind) {
            (MKind::Slider { nodes, repeats, .. }, HitObjectKind::Slider(s)) => {
                sliders += 1;
                let beat_len = lists.timing_at(start).map_or(1000.0, |p| p.beat_len);
                let sv = lists.difficulty_at(start).map_or(1.0, |p| p.sv);
                let hi = if matches!(got.mode, GameMode::Osu | GameMode::Catch) { 10000.0 } else { 1000.0 };
                let m = (100.0 / sv).clamp(10.0, hi) / 100.0;
                let v = 100.0 * sm / (beat_len * m);
                if !close(s.velocity, v) {
                    return Err(format!("slider {i}: velocity {} but 100 x {sm} / ({beat_len} x {m}) = {v} (slider velocity {sv}, mode {:?})", s.velocity, got.mode));
                }
                let spans = f64::from(*repeats + 1);
                let dist = s.path.curve_with_bufs(&mut bufs).dist();
                let dur = spans * dist / s.velocity;
                let got_dur = s.duration_with_bufs(&mut bufs);
                if !close(got_dur, dur) {
                    return Err(format!("slider {i}: duration {got_dur} but spans x distance / velocity = {dur}"));
                }
                for (n, node) in nodes.iter_mut().enumerate() {
                    let tt = start + n as f64 * got_dur / spans + 5.0;
                    edge(tt, &mut near_edge);
                    let (b, vol, idx) = sample_defaults(&lists, tt);
                    for smp in node.iter_mut() {
                        apply_point(smp, b, vol, idx);
                    }
                }
                start + got_dur
            }
            (MKind::Spinner { dur, .. }, _) | (MKind::Hold { dur, .. }, _) => start + *dur,
            _ => start,
        };
        edge(end + 5.0, &mut near_edge);
        let (b, vol, idx) = sample_defaults(&lists, end + 5.0);
        for smp in o.samples.iter_mut() {
            apply_point(smp, b, vol, idx);
        }
        let conv = ho::conv(h);
        if conv != *o {
            return Err(format!("object {i} differs from the reference pipeline (order, combo after break, sample defaults at end+5 ms)\n impl  {:?}\n model {:?}\n sample points {:?}", conv, o, lists.s));
        }
    }
    let inherited = d.tps.iter().any(|(_, r)| r.split(',').nth(5) == Some("0"));
    Ok((got, Outcome { nontrivial: sliders >= 1 && inherited && !d.breaks.is_empty(), sliders, near_edge }))
}

/// rule (5): shifting every time by a whole number of milliseconds shifts all object and
/// control-point times and changes nothing else
fn check_shift(base: &HitObjects, shifted: &HitObjects, k: f64) -> Result<(), String> {
    if base.hit_objects.len() != shifted.hit_objects.len() {
        return Err("object count changes under a time shift".into());
    }
    for (i, (a, b)) in shifted.hit_objects.iter().zip(&base.hit_objects).enumerate() {
        let mut b2 = b.clone();
        b2.start_time += k;
        if let (HitObjectKind::Slider(x), HitObjectKind::Slider(y)) = (&a.kind, &mut b2.kind) {
            // velocity must be bit-identical; copy so that == compares the rest
            if x.velocity.to_bits() != y.velocity.to_bits() {
                return Err(format!("object {i}: velocity changes under a shift by {k}: {} vs {}", x.velocity, y.velocity));
            }
        }
        if *a != b2 {
            return Err(format!("object {i} changes under a shift by {k} ms:\n shifted  {:?}\n original {:?}", a, b));
        }
    }
    macro_rules! list {
        ($f:ident) => {
            if shifted.control_points.$f.len() != base.control_points.$f.len() {
                return Err(format!("{} changes length under a shift", stringify!($f)));
            }
            for (a, b) in shifted.control_points.$f.iter().zip(&base.control_points.$f) {
                let mut b2 = b.clone();
                b2.time += k;
                if *a != b2 {
                    return Err(format!("{} entry changes under a shift by {k}: {:?} vs {:?}", stringify!($f), a, b));
                }
            }
        };
    }
    list!(timing_points);
    list!(difficulty_points);
    list!(effect_points);
    list!(sample_points);
    if shifted.breaks.len() != base.breaks.len() {
        return Err("break count changes under a shift".into());
    }
    for (a, b) in shifted.breaks.iter().zip(&base.breaks) {
        if a.start_time != b.start_time + k || a.end_time != b.end_time + k {
            return Err("break times are not shifted".into());
        }
    }
    Ok(())
}

fn doc_json(d: &Doc, k: f64) -> Value {
    json!({"text": render(d, 0.0), "shift_ms": k})
}

/// probe for the known finding: some object times become 0 and -0
const VERSIONS: &[i32] = &[14, 14, 14, 3, 5, 7, 8, 9, 12, 128, 6, 4, 10, 13];

pub fn gen_case_neg_zero(t: &mut Tape) -> (Doc, f64) {
    let (mut d, _) = gen_case_v14(t);
    for o in d.objs.iter_mut() {
        if t.chance(45) {
            let e = o.1.map(|e| e - o.0);
            o.0 = if t.chance(50) { -0.0 } else { 0.0 };
            o.1 = e.map(|e| e.max(0.0));
        }
    }
    // (read last: earlier tapes keep their meaning)
    d.ver = *t.pick(VERSIONS);
    (d, 0.0)
}

fn has_neg_zero(d: &Doc) -> bool {
    d.objs.iter().any(|o| o.0 == 0.0 && o.0.is_sign_negative())
}

/// K6 classifier: an object time is -0 and the document passes once every -0 is written as 0
pub fn classify_k6(d: &Doc, k: f64) -> bool {
    if k != 0.0 || !has_neg_zero(d) {
        return false;
    }
    let mut n = d.clone();
    for o in n.objs.iter_mut() {
        if o.0 == 0.0 {
            o.0 = 0.0;
        }
    }
    evaluate(&n, k, None).is_ok()
}

pub fn gen_case(t: &mut Tape) -> (Doc, f64) {
    let (mut d, mut k) = gen_case_v14(t);
    d.ver = *t.pick(VERSIONS);
    d.order = *t.pick(&[0u8, 0, 0, 0, 1, 2, 3, 4]);
    if t.chance(20) && add_exact_boundaries(&mut d, t) {
        k = 0.0;
    }
    if d.exact_only {
        k = 0.0;
    }
    (d, k)
}

/// second pass: inherited lines placed *exactly* (bit-equal, or one ulp beside) where a slider node or end
/// looks up its sample point - the implementation's own `start + i * duration / spans + 5`. The shift is then 0
/// (such times are not multiples of 1/8 ms).
fn add_exact_boundaries(d: &mut Doc, t: &mut Tape) -> bool {
    let Ok(ho) = rosu_map::from_str::<HitObjects>(&render(d, 0.0)) else { return false };
    let mut cands: Vec<f64> = vec![];
    for h in ho.hit_objects {
        let start = h.start_time;
        if let HitObjectKind::Slider(mut s) = h.kind {
            let spans = f64::from(s.span_count());
            let dur = s.duration();
            if !dur.is_finite() || dur <= 0.0 {
                continue;
            }
            for i in 0..=s.span_count() {
                cands.push(start + f64::from(i) * dur / spans + 5.0);
            }
            cands.push(start + dur + 5.0);
        }
    }
    if cands.is_empty() {
        return false;
    }
    // a break that starts (or ends) bit-exactly at such a time minus the 5 ms, i.e. at a slider's end / node time
    if t.chance(30) {
        let x = cands[t.below(cands.len())] - 5.0;
        if x.is_finite() {
            if t.chance(50) {
                d.breaks.push((x, x + 100.0 + t.below(2000) as f64));
            } else {
                d.breaks.push((x - 100.0 - t.below(2000) as f64, x));
            }
        }
    }
    let n = 1 + t.below(3);
    for _ in 0..n {
        let x = cands[t.below(cands.len())];
        let step = |x: f64, up: bool| -> f64 {
            if x == 0.0 || !x.is_finite() {
                return x;
            }
            let b = x.to_bits();
            f64::from_bits(if (x > 0.0) == up { b + 1 } else { b - 1 })
        };
        let x = match t.below(4) {
            0 => step(x, true),
            1 => step(x, false),
            _ => x,
        };
        if !x.is_finite() {
            continue;
        }
        d.tps.push((x, format!("-100,4,{},{},{},0,{}", 1 + t.below(3), t.pick(&[0, 1, 2]), t.pick(&[100, 60, 30, 45]), t.below(2))));
    }
    true
}

/// a document that always went through the exact-boundary pass (used by other properties' map-level families)
pub fn gen_case_exact(t: &mut Tape) -> (Doc, f64) {
    let (mut d, mut k) = gen_case_v14(t);
    d.ver = *t.pick(VERSIONS);
    if add_exact_boundaries(&mut d, t) {
        k = 0.0;
    }
    if d.exact_only {
        k = 0.0;
    }
    (d, k)
}

fn gen_case_v14(t: &mut Tape) -> (Doc, f64) {
    let d = gen_doc(t);
    let k = match t.weighted(&[1, 3, 3]) {
        0 => 0.0,
        1 => t.int(-1000, 1000) as f64,
        _ => t.int(-1_000_000, 1_000_000) as f64,
    };
    (d, k)
}

pub fn evaluate(d: &Doc, k: f64, st: Option<&mut Stats>) -> Result<Outcome, String> {
    let (base, o) = check_rules(d, 0.0)?;
    if k != 0.0 {
        let (shifted, o2) = check_rules(d, k)?;
        if o.near_edge || o2.near_edge {
            if let Some(st) = st {
                st.exclude("shift comparison skipped: a sample lookup time lies within 1e-6 ms of a sample point (float rounding of the slider duration)");
            }
        } else {
            check_shift(&base, &shifted, k)?;
        }
    }
    Ok(o)
}

pub fn run(ctx: &mut Ctx) {
    ctx.rule = "cases are (generated map, integer shift k in [-10^6, 10^6]): sorted and unsorted object lines (each object carries its file index in its x coordinate; equal start times occur), breaks before / between / after objects and ending exactly at object times, timing and inherited points around object start / end times (-6, -5.125, -5, -4.875, -4, 0, +5 ms offsets to hit the leniency edge), all four modes, slider multipliers incl. the clamp edges; all times are multiples of 1/8 ms so shifting is exact. Oracle: (1) stable order by start time, (2) new combo after each break, (3) velocity = 100 x SM / (beat length x clamp(100/sv)/100) with the per-mode clamp and duration = spans x distance / velocity (REL 1e-9), (4) every object / node sample equals the line-level sample (reference grammar) completed from the sample point active 5 ms after the end / the node (reference timing model), (5) decode(shift_k(x)) equals decode(x) with all object, control-point and break times shifted by k and nothing else changed. Non-trivial = >= 1 slider, >= 1 inherited point, >= 1 break (and k != 0 for the shift relation); distinct by hash(text, k).".into();
    ctx.assumptions.push("the curve distance is taken from the implementation (C16/C17 check it); velocity is compared with REL 1e-9 and then reused for the node times so that a 1-ulp difference cannot flip a sample-point lookup".into());
    ctx.assumptions.push("object times of -0 are generated only in the dedicated probe (known finding c15.negative_zero_time: total_cmp sorts -0 before 0)".into());
    let open_k6 = ctx.open(K6);
    crate::props::replay_regress_generic(ctx, replay);
    let probe = ctx.tier.pick(20_000u64, 200_000u64);
    ctx.pbt("c15-probe-negzero", probe, 700, |t, st| {
        let (d, k) = gen_case_neg_zero(t);
        st.eval();
        st.label("probe:-0 object times");
        match evaluate(&d, k, Some(st)) {
            Ok(_) => Ok(()),
            Err(m) => {
                if open_k6 && classify_k6(&d, k) {
                    st.known(K6);
                    return Ok(());
                }
                let hex: String = t.all_bytes().iter().map(|b| format!("{b:02x}")).collect();
                let mut v = doc_json(&d, k);
                v["replay_tape_hex"] = json!(hex);
                v["probe"] = json!("neg_zero");
                Err(Fail::json(m, &v))
            }
        }
    });
    let cases = ctx.tier.pick(1_200_000u64, 8_000_000u64);
    ctx.pbt("c15-random", cases, 700, |t, st| {
        let (d, k) = gen_case(t);
        st.eval();
        match evaluate(&d, k, Some(st)) {
            Ok(o) => {
                if o.nontrivial && k != 0.0 {
                    let fresh = st.nontrivial(hash64(&(render(&d, 0.0), k.to_bits())));
                    if fresh && d.objs.len() <= 4 {
                        st.sample(|| doc_json(&d, k));
                    }
                }
                st.label_n("sliders", o.sliders as u64);
                if d.objs.windows(2).any(|w| w[0].0 > w[1].0) {
                    st.label("unsorted object lines");
                }
                if !d.breaks.is_empty() {
                    st.label("has break");
                }
                if d.ver != 14 {
                    st.label("format version != 14");
                }
                if d.order != 0 {
                    st.label("non-canonical section order");
                }
                Ok(())
            }
            Err(m) => {
                let hex: String = t.all_bytes().iter().map(|b| format!("{b:02x}")).collect();
                let mut v = doc_json(&d, k);
                v["replay_tape_hex"] = json!(hex);
                Err(Fail::json(m, &v))
            }
        }
    });
}

pub fn replay(ctx: &mut Ctx, ext: &str, bytes: &[u8]) -> Result<Option<String>, Fail> {
    let mut probe = false;
    let tape: Vec<u8> = if ext == "tape" {
        bytes.to_vec()
    } else {
        let v: Value = serde_json::from_slice(bytes).map_err(|e| Fail::new(format!("bad JSON {e}"), "json", bytes.to_vec()))?;
        probe = v["probe"].as_str() == Some("neg_zero");
        let hex = v["replay_tape_hex"].as_str().unwrap_or("");
        (0..hex.len() / 2).filter_map(|i| u8::from_str_radix(&hex[2 * i..2 * i + 2], 16).ok()).collect()
    };
    let (d, k) = if probe { gen_case_neg_zero(&mut Tape::new(&tape)) } else { gen_case(&mut Tape::new(&tape)) };
    match evaluate(&d, k, None) {
        Ok(_) => Ok(None),
        Err(m) => {
            if ctx.open(K6) && classify_k6(&d, k) {
                return Ok(Some(K6.to_string()));
            }
            Err(Fail::json(m, &doc_json(&d, k)))
        }
    }
}
