//! C14 - hit-object lines decode per the legacy grammar.

use crate::engine::*;
use crate::refmodel::hitobj::*;
use rosu_map::section::hit_objects::{HitObjectKind, HitObjects};
use rosu_map::util::Pos;
use serde_json::json;

fn file_of(lines: &[String]) -> String {
    format!("osu file format v14\n\n[HitObjects]\n{}\n", lines.join("\n"))
}

pub struct Outcome {
    pub accepted: usize,
    pub nontrivial: bool,
    pub sliders: usize,
    pub multiseg: usize,
}

pub fn evaluate(lines: &[String]) -> Result<Outcome, String> {
    evaluate_in_mode(lines, None)
}

/// `mode`: None = no [General] section; Some(m) with m < 4 = `Mode: m` under v14; Some(4 + 4k + m) = the
/// same under another format version (the grammar does not depend on the version either)
fn file_in_mode(lines: &[String], mode: Option<u8>) -> String {
    const VERS: [i32; 8] = [14, 3, 5, 7, 8, 9, 12, 128];
    match mode {
        None => file_of(lines),
        Some(m) => format!("osu file format v{}\n\n[General]\nMode: {}\n\n[HitObjects]\n{}\n", VERS[(m / 4) as usize % 8], m % 4, lines.join("\n")),
    }
}

/// the grammar does not depend on the game mode: the same model must hold under every `Mode` declared before
pub fn evaluate_in_mode(lines: &[String], mode: Option<u8>) -> Result<Outcome, String> {
    let txt = file_in_mode(lines, mode);
    let ho: HitObjects = rosu_map::from_str(&txt).map_err(|e| format!("decode error {e}"))?;
    let mut ctx = LineCtx::default();
    let mut model: Vec<MObj> = vec![];
    let (mut sliders, mut multiseg) = (0, 0);
    let mut nontrivial = false;
    for l in lines {
        let tl = l.trim_end();
        if tl.is_empty() || tl.trim_start().starts_with("//") {
            continue;
        }
        if let Some(mut o) = parse_line(&mut ctx, tl) {
            // no [TimingPoints]: the default sample point (Normal / 100 / 0) supplies what a line leaves open
            for s in o.samples.iter_mut() {
                apply_point(s, 1, 100, 0);
            }
            let fields = tl.split(',').count();
            match &mut o.kind {
                MKind::Slider { nodes, cps, .. } => {
                    sliders += 1;
                    let typed = cps.iter().filter(|c| c.2.is_some()).count();
                    if typed > 1 {
                        multiseg += 1;
                        nontrivial = true;
                    }
                    if cps.windows(2).any(|w| w[0].0 == w[1].0 && w[0].1 == w[1].1) {
                        nontrivial = true;
                    }
                    if fields > 8 {
                        nontrivial = true;
                    }
                    for n in nodes.iter_mut() {
                        for s in n.iter_mut() {
                            apply_point(s, 1, 100, 0);
                        }
                    }
                }
                MKind::Circle { .. } | MKind::Spinner { .. } | MKind::Hold { .. } => {
                    if fields > 5 {
                        nontrivial = true; // extras present
                    }
                }
            }
            let ty: i32 = tl.split(',').nth(3).and_then(|s| s.parse().ok()).unwrap_or(0);
            if (ty & (1 | 2 | 8 | 128)).count_ones() >= 2 {
                nontrivial = true;
            }
            model.push(o);
        }
    }
    // map-level: stable order by start time (C15 checks that rule; here it only aligns the lists)
    model.sort_by(|a, b| a.time.total_cmp(&b.time));
    let imp: Vec<MObj> = ho.hit_objects.iter().map(conv).collect();
    if imp.len() != model.len() {
        return Err(format!("{} objects decoded, the legacy grammar accepts {} of the lines\n impl  {:?}\n model {:?}", imp.len(), model.len(), imp, model));
    }
    for (i, (a, b)) in imp.iter().zip(&model).enumerate() {
        if a != b {
            return Err(format!("object {i} differs from the legacy grammar\n impl  {:?}\n model {:?}", a, b));
        }
    }
    for h in &ho.hit_objects {
        if let HitObjectKind::Spinner(s) = &h.kind {
            if s.pos != Pos::new(256.0, 192.0) {
                return Err(format!("spinner position {:?}", s.pos));
            }
            if s.duration < 0.0 {
                return Err("negative spinner duration".into());
            }
        }
        if let HitObjectKind::Hold(s) = &h.kind {
            if s.duration < 0.0 {
                return Err("negative hold duration".into());
            }
        }
        if let HitObjectKind::Slider(s) = &h.kind {
            if s.node_samples.len() != s.repeat_count as usize + 2 {
                return Err("a slider must have repeats+2 node sample sets".into());
            }
        }
    }
    Ok(Outcome { accepted: model.len(), nontrivial, sliders, multiseg })
}

// ---------- generator ----------
fn numtok(t: &mut Tape) -> String {
    match t.below(17) {
        16 => crate::gen::doc::odd_number(t).to_string(),
        0 => "0".into(),
        1 => format!("{}", t.int(0, 512)),
        2 => format!("-{}", t.int(0, 300)),
        3 => format!("{}.7", t.int(0, 400)),
        4 => "131072".into(),
        5 => "131073".into(),
        6 => " 12 ".into(),
        7 => "x".into(),
        8 => "".into(),
        9 => "1e2".into(),
        10 => "-0.9".into(),
        11 => "NaN".into(),
        12 => "-131072".into(),
        13 => "131072.5".into(),
        14 => "+7".into(),
        _ => format!("{}", t.int(0, 384)),
    }
}

fn pt(t: &mut Tape, last: &mut (i64, i64), origin: (i64, i64)) -> String {
    let p = match t.below(10) {
        0 | 1 => *last,
        2 => origin,
        3 => (origin.0 + t.int(-2, 2) * 8, origin.1 + t.int(-2, 2) * 8),
        _ => (t.int(0, 63) * 8, t.int(0, 47) * 8),
    };
    *last = p;
    match t.below(40) {
        0 => format!("{}:", p.0),
        1 => format!("{}", p.0),
        2 => format!("{}:x", p.0),
        3 => format!("{}.6:{}.4", p.0, p.1),
        4 => format!("{}:{}:9", p.0, p.1),
        5 => "131073:0".into(),
        6 => format!(" {} : {} ", p.0, p.1),
        7 => format!("-{}:{}", p.0, p.1),
        _ => format!("{}:{}", p.0, p.1),
    }
}

fn pathtok(t: &mut Tape, origin: (i64, i64)) -> String {
    if t.chance(5) {
        // a three-point perfect curve (as the first or as a later segment) whose exact cross product is tiny while
        // the coordinates are large: the collinear -> linear conversion is decided by an f32 cross product
        let mut tri = crate::gen::doc::small_cross_triple(t);
        if t.chance(60) {
            // both later points far from the first one and the cross product 1..3: the two f32 products exceed 2^24
            fn egcd(a: i64, b: i64) -> (i64, i64, i64) {
                if b == 0 {
                    (a, 1, 0)
                } else {
                    let (g, x, y) = egcd(b, a % b);
                    (g, y, x - (a / b) * y)
                }
            }
            let (p, q) = (t.int(4097, 40000), t.int(4097, 40000));
            let (g, x, y) = egcd(p, q);
            let (p, q) = (p / g, q / g);
            let n = t.int(0, 1);
            let sgn = if t.chance(50) { 1 } else { -1 };
            let sm = sgn * t.int(1, 3);
            let a = tri[0];
            let b = (a.0 + p, a.1 + q);
            tri = [a, b, (b.0 + n * p - sm * y, b.1 + n * q + sm * x)];
        }
        let (dx, dy) = (origin.0 - tri[0].0, origin.1 - tri[0].1);
        let p = |i: usize| format!("{}:{}", (tri[i].0 + dx).clamp(-131072, 131072), (tri[i].1 + dy).clamp(-131072, 131072));
        return match t.below(3) {
            0 => format!("P|{}|{}", p(1), p(2)),
            1 => format!("L|{}|P|{}|{}", p(0), p(1), p(2)),
            _ => format!("P|{}|{}|L|{}", p(1), p(2), p(0)),
        };
    }
    let mut toks: Vec<String> = vec![];
    let mut last = origin;
    let nseg = 1 + t.below(3);
    for si in 0..nseg {
        if si > 0 || t.chance(92) {
            // (non-ASCII type tokens: only the first token of a path may start with a non-ASCII character,
            // a later one would not open a segment)
            let pool: &[&str] = if si == 0 {
                &["B", "L", "P", "C", "B3", "X", "B0", "Bx", "b", "P", "B-2", "L9", "\u{142}", "\u{14c}3", "\u{150}", "\u{ff22}", "\u{e9}", "\u{4e0a}", "\u{1F3B5}2"]
            } else {
                &["B", "L", "P", "C", "B3", "X", "B0", "Bx", "b", "P", "B-2", "L9"]
            };
            toks.push((*t.pick(pool)).to_string());
        }
        let np = if t.chance(10) { 0 } else { 1 + t.below(4) };
        for _ in 0..np {
            toks.push(pt(t, &mut last, origin));
        }
        if t.chance(3) {
            toks.push(String::new());
        }
    }
    toks.join("|")
}

/// a numeric subfield at or beyond its limits, or spelled unusually
fn limit_int(t: &mut Tape) -> &'static str {
    *t.pick(&["2147483647", "2147483648", "-2147483647", "-2147483648", "-2147483649", "4294967296", "99999999999", "1e3", "+2", "02", "2.0", "2.5", "-0", " 1", "1 ", "0x1", "", "4", "5", "255", "256", "-1", "101", "1000"])
}

fn extras(t: &mut Tape) -> String {
    if t.chance(8) {
        // every numeric subfield has its own parse and its own bound
        let n = 1 + t.below(5);
        let mut f: Vec<String> = (0..n).map(|i| if t.chance(40) { limit_int(t).to_string() } else { [t.below(4), t.below(4), t.below(3), t.below(101), 0][i.min(4)].to_string() }).collect();
        if n == 5 {
            f[4] = (*t.pick(&["", "f.wav", "x"])).to_string();
        }
        return f.join(":");
    }
    match t.below(14) {
        0 => "".into(),
        1 => format!("{}:{}", t.below(5), t.below(5)),
        2 => format!("{}:{}:{}", t.below(5), t.below(5), t.below(4)),
        3 => format!("{}:{}:{}:{}", t.below(5), t.below(5), t.below(4), t.int(-10, 110)),
        4 => format!("{}:{}:{}:{}:f.wav", t.below(5), t.below(5), t.below(4), t.below(101)),
        5 => format!("{}:{}:{}:{}:", t.below(5), t.below(5), t.below(4), t.below(101)),
        6 => format!("{}", t.below(4)),
        7 => "x:1".into(),
        8 => "1:x".into(),
        9 => ":1:2".into(),
        10 => "-1:7:x".into(),
        11 => format!("{}:{}:{}:{}:a:b.wav", t.below(4), t.below(4), t.below(3), t.below(101)),
        12 => format!("{}:{}:-3:0:", t.below(4), t.below(4)),
        _ => "0:0:0:0:".into(),
    }
}

fn genline(t: &mut Tape, clock: &mut i64) -> String {
    let (x, y) = (t.int(0, 63) * 8, t.int(0, 47) * 8);
    let xs = if t.chance(8) { numtok(t) } else { x.to_string() };
    let ys = if t.chance(8) { numtok(t) } else { y.to_string() };
    *clock += t.int(0, 40) * 25;
    let time = if t.chance(6) { numtok(t) } else if t.chance(15) { format!("{}", t.int(0, 100000)) } else { format!("{clock}") };
    let sound = if t.chance(5) { (*t.pick(&["x", "", "256", "-1", " 2", "+4", "255", "1000"])).to_string() } else { t.below(16).to_string() };
    let base = *t.pick(&[1u32, 1, 2, 2, 2, 8, 128, 0, 3, 10, 136, 12, 6, 5, 130, 9]);
    let tybits = base | if t.chance(30) { 4 } else { 0 } | if t.chance(50) { (t.below(8) as u32) << 4 } else { 0 };
    let ty = if t.chance(4) { (*t.pick(&["x", "", " 1", "+2", "-1", "4096", "257"])).to_string() } else { tybits.to_string() };
    let mut f: Vec<String> = vec![xs, ys, time, ty, sound];
    let k = tybits & !0x74;
    if k & 1 != 0 {
        if t.chance(60) {
            f.push(extras(t));
        }
    } else if k & 2 != 0 {
        f.push(pathtok(t, (x, y)));
        if t.chance(97) {
            f.push((*t.pick(&["1", "1", "2", "3", "0", "-1", "9000", "9001", "x", " 2 ", "4"])).to_string());
        }
        if t.chance(85) {
            f.push((*t.pick(&["100", "0", "-5", "0.0000000000000001", "131072", "131073", "x", "12.5", "", "0.0000000000000003", "250.75"])).to_string());
        }
        if t.chance(60) {
            let n = t.below(6);
            f.push((0..n).map(|_| (*t.pick(&["0", "2", "4", "8", "14", "x", "", "256", "3"])).to_string()).collect::<Vec<_>>().join("|"));
            if t.chance(70) {
                let n = t.below(6);
                f.push((0..n).map(|_| extras(t)).collect::<Vec<_>>().join("|"));
                if t.chance(70) {
                    f.push(extras(t));
                }
            }
        }
    } else if k & 8 != 0 {
        if t.chance(95) {
            f.push(if t.chance(10) { numtok(t) } else { format!("{}", *clock + t.int(-500, 3000)) });
        }
        if t.chance(50) {
            f.push(extras(t));
        }
    } else if k & 128 != 0 && t.chance(80) {
        let e = if t.chance(10) { numtok(t) } else { format!("{}", *clock + t.int(-500, 3000)) };
        f.push(if t.chance(60) { format!("{e}:{}", extras(t)) } else { e });
    }
    let n = f.len();
    if t.chance(4) {
        f.truncate(t.below(n + 1));
    }
    let mut l = f.join(",");
    if t.chance(4) {
        l.push_str(*t.pick(&[" // c", " //,1,2", " // a|b:c,d", "//,0:0:0:0:", " // 1,2,3,4,5,6,7,8,9,10,11"]));
    }
    l
}

/// the mode choice is read after the lines, so tapes without it mean "no Mode line"
fn gen_mode_opt(t: &mut Tape) -> Option<u8> {
    match t.below(5) {
        0 => None,
        k => Some((k - 1) as u8 + 4 * t.below(8) as u8),
    }
}

pub fn gen_lines(t: &mut Tape) -> Vec<String> {
    let nl = 1 + t.below(6);
    let mut clock = t.int(0, 40) * 250;
    let mut v: Vec<String> = (0..nl).map(|_| genline(t, &mut clock)).collect();
    // the [HitObjects] section interrupted by another section and resumed: the decoder switches sections, the
    // reference parser sees three lines that are no hit objects - either way nothing is added and the
    // running state (first object, spinner before) carries over
    if t.chance(10) {
        let at = t.below(v.len() + 1);
        let mid: &[&str] = match t.below(5) {
            0 => &["[Colours]", "Combo1 : 1,2,3", "[HitObjects]"],
            1 => &["[Metadata]", "Title:x", "[HitObjects]"],
            2 => &["[Editor]", "[HitObjects]"],
            3 => &["[Unknown]", "[HitObjects]"],
            _ => &["[General]", "StackLeniency: 0.3", "[HitObjects]"],
        };
        for (k, l) in mid.iter().enumerate() {
            v.insert(at + k, l.to_string());
        }
    }
    v
}

const SUFFIXES: [&str; 4] = ["", ",L|200:200,1,100", ",2000", ",2000:1:2:3:40:"];

pub fn run(ctx: &mut Ctx) {
    ctx.rule = "cases are [HitObjects] sections of 1..6 lines from a field-wise generator (positions incl. fractions / negatives / +-131072 and beyond, every kind, type and sound bytes, all extras shapes, path strings over B L P C B<k> X with duplicate / origin / collinear points, multi-segment paths, missing colons and empty tokens, repeat counts {-1,0,1,2,3,9000,9001}, lengths {absent,0,negative,tiny,fraction,131072,131073}, node sound / bank lists shorter and longer than the node count, spinners / holds ending before, at and after their start, truncated lines). Exhaustive: all 256 type bytes x 256 sound bytes x 4 field suffixes x {first object, after a spinner}. Oracle: an independent reference parser (refmodel::hitobj) vs HitObjects on acceptance, kind, position, time, combo flag/offset, control points and types, requested length, repeats, node count, durations and full sample lists. Non-trivial = slider with >= 2 segments or a duplicate control point, or extras present, or a type byte with >= 2 kind bits; distinct by construction / by line hash.".into();
    ctx.assumptions.push("files have no [TimingPoints], so the default sample point (Normal, 100, 0) fills unspecified bank / volume / index; objects are aligned by stable time order (C15 checks that rule itself)".into());
    crate::props::replay_regress_generic(ctx, replay);

    ctx.enumerate("256 type bytes x 256 sound bytes x 4 suffixes x {first; after a spinner in modes 0..3}", 65536 * 4 * 5, |i, st| {
        let ty = i % 256;
        let snd = (i / 256) % 256;
        let suf = SUFFIXES[((i / 65536) % 4) as usize];
        let k = i / (65536 * 4);
        let after_spinner = k >= 1;
        let mode = if k >= 1 { Some((k - 1) as u8) } else { None };
        let mut lines = vec![];
        if after_spinner {
            lines.push("256,192,500,12,0,800".to_string());
        }
        lines.push(format!("100,120,1000,{ty},{snd}{suf}"));
        st.eval();
        match evaluate_in_mode(&lines, mode) {
            Ok(o) => {
                if o.accepted > usize::from(after_spinner) {
                    st.nontrivial_distinct();
                    if i % 30_011 == 9 {
                        st.sample(|| json!(lines));
                    }
                }
                Ok(())
            }
            Err(m) => Err(Fail::new(m, "osu", file_in_mode(&lines, mode).into_bytes())),
        }
    });

    let cases = ctx.tier.pick(600_000u64, 6_000_000u64);
    ctx.pbt("c14-random", cases, 500, |t, st| {
        let lines = gen_lines(t);
        let mode = gen_mode_opt(t);
        st.eval();
        match evaluate_in_mode(&lines, mode) {
            Ok(o) => {
                if o.nontrivial {
                    let fresh = st.nontrivial(hash64(&lines));
                    if fresh && o.multiseg > 0 && lines.len() <= 2 {
                        st.sample(|| json!(lines));
                    }
                }
                st.label_n("accepted lines", o.accepted as u64);
                st.label_n("rejected lines", (lines.len() - o.accepted.min(lines.len())) as u64);
                st.label_n("sliders", o.sliders as u64);
                st.label_n("multi-segment sliders", o.multiseg as u64);
                st.label(match mode.map(|m| m % 4) {
                    None => "no Mode line",
                    Some(0) => "Mode: 0",
                    Some(1) => "Mode: 1",
                    Some(2) => "Mode: 2",
                    _ => "Mode: 3",
                });
                if mode.map_or(false, |m| m >= 4) {
                    st.label("format version != 14");
                }
                Ok(())
            }
            Err(m) => Err(Fail::new(m, "osu", file_in_mode(&lines, mode).into_bytes())),
        }
    });
}

pub fn replay(_ctx: &mut Ctx, ext: &str, bytes: &[u8]) -> Result<Option<String>, Fail> {
    let mut mode = None;
    let lines: Vec<String> = if ext == "tape" {
        let mut t = Tape::new(bytes);
        let l = gen_lines(&mut t);
        mode = gen_mode_opt(&mut t);
        l
    } else {
        let text = String::from_utf8_lossy(bytes).into_owned();
        let mut in_ho = false;
        let mut v = vec![];
        for l in text.lines() {
            if l.trim_end() == "[HitObjects]" {
                in_ho = true;
                continue;
            }
            if in_ho {
                v.push(l.to_string());
            } else if let Some(m) = l.strip_prefix("Mode: ") {
                let vi = text.lines().next().and_then(|h| h.strip_prefix("osu file format v")).and_then(|v| v.trim().parse::<i32>().ok()).and_then(|v| [14, 3, 5, 7, 8, 9, 12, 128].iter().position(|x| *x == v)).unwrap_or(0) as u8;
                mode = m.trim().parse::<u8>().ok().map(|m| m % 4 + 4 * vi);
            }
        }
        v
    };
    evaluate_in_mode(&lines, mode).map(|_| None).map_err(|m| Fail::new(m, "osu", file_in_mode(&lines, mode).into_bytes()))
}

pub fn genline_pub(t: &mut Tape, clock: &mut i64) -> String {
    genline(t, clock)
}

/// Text-level entry of the `grammar` fuzz target: arbitrary text as the body of [HitObjects].
/// Ok(false) = outside the line-level domain (a line would be taken for a section header or is framed
/// differently than this module assumes - framing is C05's business).
pub fn fuzz_text(sel: u8, text: &str) -> Result<bool, Fail> {
    use crate::refmodel::framing::frame;
    use rosu_map::section::Section;
    let mode = match sel % 5 {
        0 => None,
        k => Some(k - 1 + 4 * ((sel / 5) % 8)),
    };
    let lines: Vec<String> = text.split('\n').map(|l| l.to_string()).collect();
    let file = file_in_mode(&lines, mode);
    let fr = frame(&file);
    let expect: Vec<&str> = lines.iter().map(|l| l.trim_end()).filter(|tl| !tl.is_empty() && !tl.trim_start().starts_with("//")).collect();
    let prefix = usize::from(mode.is_some());
    let same = fr.trace.len() == prefix + expect.len()
        && fr.trace[..prefix].iter().all(|(s, _)| *s == Section::General)
        && fr.trace[prefix..].iter().zip(&expect).all(|((s, l), e)| *s == Section::HitObjects && l == e);
    if !same {
        return Ok(false);
    }
    evaluate_in_mode(&lines, mode).map(|_| true).map_err(|m| Fail::new(m, "osu", file.into_bytes()))
}
