//! C13 - control-point collections stay ordered; lookups return the active point.

use crate::engine::*;
use crate::refmodel::ctrlpoints as m;
use rosu_map::section::timing_points::{
    ControlPoints, DifficultyPoint, EffectPoint, SamplePoint, TimeSignature, TimingPoint,
};
use serde_json::{json, Value};

#[derive(Clone, Debug, PartialEq)]
pub enum Op {
    T { time: f64, beat_len: f64, omit: bool, sig: u32 },
    D { time: f64, sv: f64, ticks: bool },
    E { time: f64, kiai: bool, scroll: f64 },
    S { time: f64, bank: u8, vol: i32, idx: i32 },
}

impl Op {
    pub fn time(&self) -> f64 {
        match self {
            Op::T { time, .. } | Op::D { time, .. } | Op::E { time, .. } | Op::S { time, .. } => *time,
        }
    }
    fn with_time(&self, t: f64) -> Op {
        let mut o = self.clone();
        match &mut o {
            Op::T { time, .. } | Op::D { time, .. } | Op::E { time, .. } | Op::S { time, .. } => *time = t,
        }
        o
    }
    fn to_json(&self) -> Value {
        // times as bit patterns too, so that -0.0 and tiny differences survive
        match self {
            Op::T { time, beat_len, omit, sig } => json!({"kind":"timing","time":time,"time_bits":format!("{:016x}",time.to_bits()),"beat_len":beat_len,"omit":omit,"sig":sig}),
            Op::D { time, sv, ticks } => json!({"kind":"difficulty","time":time,"time_bits":format!("{:016x}",time.to_bits()),"sv":sv,"sv_bits":format!("{:016x}",sv.to_bits()),"ticks":ticks}),
            Op::E { time, kiai, scroll } => json!({"kind":"effect","time":time,"time_bits":format!("{:016x}",time.to_bits()),"kiai":kiai,"scroll":scroll,"scroll_bits":format!("{:016x}",scroll.to_bits())}),
            Op::S { time, bank, vol, idx } => json!({"kind":"sample","time":time,"time_bits":format!("{:016x}",time.to_bits()),"bank":bank,"vol":vol,"idx":idx}),
        }
    }
    fn from_json(v: &Value) -> Option<Op> {
        let bits = |k: &str, fallback: &str| -> Option<f64> {
            if let Some(s) = v[k].as_str() {
                return u64::from_str_radix(s, 16).ok().map(f64::from_bits);
            }
            v[fallback].as_f64()
        };
        let time = bits("time_bits", "time")?;
        Some(match v["kind"].as_str()? {
            "timing" => Op::T {
                time,
                beat_len: v["beat_len"].as_f64()?,
                omit: v["omit"].as_bool()?,
                sig: v["sig"].as_u64()? as u32,
            },
            "difficulty" => Op::D { time, sv: bits("sv_bits", "sv")?, ticks: v["ticks"].as_bool()? },
            "effect" => Op::E { time, kiai: v["kiai"].as_bool()?, scroll: bits("scroll_bits", "scroll")? },
            "sample" => Op::S {
                time,
                bank: v["bank"].as_u64()? as u8,
                vol: v["vol"].as_i64()? as i32,
                idx: v["idx"].as_i64()? as i32,
            },
            _ => return None,
        })
    }
}

fn apply(cp: &mut ControlPoints, model: &mut m::Lists, op: &Op) {
    match *op {
        Op::T { time, beat_len, omit, sig } => {
            // public constructor (clamps the beat length) - the model mirrors the stored value
            let p = TimingPoint::new(time, beat_len, omit, TimeSignature::new(sig as i32).unwrap());
            model.add_t(m::T { time, beat_len: beat_len.clamp(6.0, 60000.0), omit, sig });
            cp.add(p);
        }
        Op::D { time, sv, ticks } => {
            let p = DifficultyPoint { time, slider_velocity: sv, generate_ticks: ticks };
            model.add_d(m::D { time, sv, ticks });
            cp.add(p);
        }
        Op::E { time, kiai, scroll } => {
            let p = EffectPoint { time, kiai, scroll_speed: scroll };
            model.add_e(m::E { time, kiai, scroll });
            cp.add(p);
        }
        Op::S { time, bank, vol, idx } => {
            let p = SamplePoint { time, sample_bank: m::u8_bank(bank), sample_volume: vol, custom_sample_bank: idx };
            model.add_s(m::S { time, bank, vol, idx });
            cp.add(p);
        }
    }
}

/// independent invariant: strictly increasing under numeric `<`
fn strictly_increasing(ts: impl Iterator<Item = f64>) -> bool {
    let v: Vec<f64> = ts.collect();
    v.windows(2).all(|w| w[0] < w[1])
}

fn check_state(cp: &ControlPoints, model: &m::Lists, probes: &[f64]) -> Result<(), String> {
    let got = m::lists_of(cp);
    if !m::lists_eq(&got, model) {
        return Err(format!("lists differ from the linear-scan model\n impl  {:?}\n model {:?}", got, model));
    }
    if !strictly_increasing(cp.timing_points.iter().map(|p| p.time))
        || !strictly_increasing(cp.difficulty_points.iter().map(|p| p.time))
        || !strictly_increasing(cp.effect_points.iter().map(|p| p.time))
        || !strictly_increasing(cp.sample_points.iter().map(|p| p.time))
    {
        return Err(format!("a list is not strictly increasing in time: {:?}", got));
    }
    for &t in probes {
        let a = cp.timing_point_at(t).map(m::t_of);
        let b = model.timing_at(t).cloned();
        if a != b {
            return Err(format!("timing_point_at({t:?}) = {a:?}, latest point not after it = {b:?}"));
        }
        let a = cp.sample_point_at(t).map(m::s_of);
        let b = model.sample_at(t).cloned();
        if a != b {
            return Err(format!("sample_point_at({t:?}) = {a:?}, model = {b:?}"));
        }
        let a = cp.difficulty_point_at(t).map(m::d_of);
        let b = model.difficulty_at(t).cloned();
        if a != b {
            return Err(format!("difficulty_point_at({t:?}) = {a:?}, model = {b:?}"));
        }
        let a = cp.effect_point_at(t).map(m::e_of);
        let b = model.effect_at(t).cloned();
        if a != b {
            return Err(format!("effect_point_at({t:?}) = {a:?}, model = {b:?}"));
        }
    }
    Ok(())
}

fn probes_for(ops: &[Op]) -> Vec<f64> {
    let mut ts: Vec<f64> = ops.iter().map(Op::time).collect();
    ts.sort_by(|a, b| a.partial_cmp(b).unwrap());
    ts.dedup_by(|a, b| a.to_bits() == b.to_bits());
    let mut pr = vec![];
    if let (Some(&lo), Some(&hi)) = (ts.first(), ts.last()) {
        pr.push(lo - 1.0);
        pr.push(hi + 1.0);
        pr.push(f64::from_bits(lo.to_bits().wrapping_add(if lo > 0.0 { u64::MAX } else { 1 }))); // neighbour
    }
    for w in ts.windows(2) {
        pr.push((w[0] + w[1]) / 2.0);
    }
    pr.extend(ts.iter().copied());
    pr.retain(|p| !p.is_nan());
    pr
}

fn run_history(ops: &[Op], every_step: bool) -> Result<(), (usize, String)> {
    let mut cp = ControlPoints::default();
    let mut model = m::Lists::default();
    let probes = probes_for(ops);
    for (i, op) in ops.iter().enumerate() {
        apply(&mut cp, &mut model, op);
        if every_step || i + 1 == ops.len() {
            check_state(&cp, &model, &probes).map_err(|e| (i, e))?;
        }
    }
    Ok(())
}

fn is_neg_zero(t: f64) -> bool {
    t == 0.0 && t.is_sign_negative()
}

/// K6 classifier: the history contains a time of -0.0 and the failure
/// disappears when every -0.0 is replaced by +0.0.
fn classify_k6(ops: &[Op]) -> bool {
    if !ops.iter().any(|o| is_neg_zero(o.time())) {
        return false;
    }
    let norm: Vec<Op> = ops
        .iter()
        .map(|o| if is_neg_zero(o.time()) { o.with_time(0.0) } else { o.clone() })
        .collect();
    run_history(&norm, true).is_ok()
}

pub const K6: &str = "c13.negative_zero_time";

fn history_json(ops: &[Op]) -> Value {
    json!({"ops": ops.iter().map(Op::to_json).collect::<Vec<_>>()})
}

fn verdict(ctx_open_k6: bool, ops: &[Op], every_step: bool, st: &mut Stats) -> CaseResult {
    match run_history(ops, every_step) {
        Ok(()) => Ok(()),
        Err((step, msg)) => {
            if ctx_open_k6 && classify_k6(ops) {
                st.known(K6);
                return Ok(());
            }
            let mut v = history_json(ops);
            v["failed_after_op_index"] = json!(step);
            Err(Fail::json(format!("after op #{step}: {msg}"), &v))
        }
    }
}

// ---- exhaustive alphabet: 4 kinds x times {-1,0,1,2} x two values ----------
const ALPHA: usize = 32;
fn alpha_op(i: usize) -> Op {
    let kind = i / 8;
    let time = [-1.0, 0.0, 1.0, 2.0][(i / 2) % 4];
    let second = i % 2 == 1;
    match kind {
        0 => Op::T { time, beat_len: if second { 300.0 } else { 500.0 }, omit: false, sig: 4 },
        1 => Op::D { time, sv: if second { 2.0 } else { 1.0 }, ticks: true },
        2 => Op::E { time, kiai: second, scroll: 1.0 },
        _ => Op::S { time, bank: if second { 2 } else { 1 }, vol: if second { 50 } else { 100 }, idx: 0 },
    }
}

fn index_to_history(mut idx: u64, max_len: usize) -> Vec<Op> {
    let mut len = 0usize;
    let mut block = 1u64;
    while len <= max_len {
        if idx < block {
            break;
        }
        idx -= block;
        block *= ALPHA as u64;
        len += 1;
    }
    let mut ops = Vec::with_capacity(len);
    for _ in 0..len {
        ops.push(alpha_op((idx % ALPHA as u64) as usize));
        idx /= ALPHA as u64;
    }
    ops.reverse();
    ops
}

fn nontrivial(ops: &[Op]) -> bool {
    // an insert before, between or onto existing points of the same kind
    for (i, op) in ops.iter().enumerate() {
        for prev in &ops[..i] {
            if std::mem::discriminant(prev) == std::mem::discriminant(op) && op.time() <= prev.time() {
                return true;
            }
        }
    }
    false
}

// ---- random histories ------------------------------------------------------
fn gen_time(t: &mut Tape, allow_neg_zero: bool) -> f64 {
    let base = match t.weighted(&[4, 4, 2, 2, 1, 1, 1]) {
        0 => t.int(-3, 3) as f64,
        1 => t.int(-12, 12) as f64 / 4.0,
        2 => {
            // very close neighbours
            let b = t.int(-2, 2) as f64;
            let k = t.int(-2, 2);
            let mut bits = b.to_bits() as i64;
            if b != 0.0 {
                bits += k;
            }
            f64::from_bits(bits as u64)
        }
        3 => t.int(-1000, 100000) as f64 + t.int(0, 999) as f64 / 1000.0,
        4 => *t.pick(&[1e-300, -1e-300, 5e-17, -5e-17, 1e9, -1e9, 2147483647.0, -2147483647.0]),
        5 => t.unit() * 10.0 - 5.0,
        _ => 0.0,
    };
    if allow_neg_zero && base == 0.0 && t.chance(50) {
        -0.0
    } else if base == 0.0 {
        0.0
    } else {
        base
    }
}

fn gen_op(t: &mut Tape, allow_neg_zero: bool) -> Op {
    let time = gen_time(t, allow_neg_zero);
    match t.below(4) {
        0 => Op::T {
            time,
            beat_len: *t.pick(&[500.0, 300.0, 1.0, 6.0, 60000.0, 1e6, 333.3333333333333]),
            omit: t.chance(30),
            sig: *t.pick(&[4u32, 3, 7, 1]),
        },
        1 => Op::D {
            time,
            sv: *t.pick(&[1.0, 2.0, 0.5, 0.1, 10.0, 1.0 + f64::EPSILON, 1.0 + 2.0 * f64::EPSILON, 1.0 - f64::EPSILON / 2.0, 1.5, 12.0, 0.05, 0.0]),
            ticks: !t.chance(25),
        },
        2 => Op::E {
            time,
            kiai: t.chance(50),
            scroll: *t.pick(&[1.0, 1.0, 2.0, 0.01, 10.0, 1.0 + f64::EPSILON, 0.5, 12.0, 0.005, 0.0, -1.0, 10.5]),
        },
        _ => Op::S {
            time,
            bank: *t.pick(&[1u8, 2, 3, 0]),
            vol: *t.pick(&[100, 50, 0, 100, 5, 120, -5]),
            idx: *t.pick(&[0, 0, 1, 2, -1]),
        },
    }
}

fn gen_history(t: &mut Tape, max_len: usize, allow_neg_zero: bool) -> Vec<Op> {
    let n = t.below(max_len + 1);
    (0..n).map(|_| gen_op(t, allow_neg_zero)).collect()
}

pub fn run(ctx: &mut Ctx) {
    ctx.rule = "cases are add-histories on ControlPoints; exhaustive part: all sequences over the 32-op alphabet (4 kinds x times {-1,0,1,2} x 2 values) up to the stated length, checked in the final state (every prefix is itself enumerated); random part: histories up to 60 ops with fractional/negative/adjacent-float times, checked after every op. Non-trivial = some op inserts before, between or onto an existing point of its kind; distinct by construction (enumeration) or by hash of the op list (random).".into();
    ctx.assumptions.push("redundancy is evaluated at insertion time only (the statement says 'never stores a point that merely repeats the point active at its time'); the model does not re-prune earlier points".into());
    ctx.assumptions.push("times are finite and not NaN; -0.0 is generated only in the dedicated probe (known finding c13.negative_zero_time)".into());
    let open_k6 = ctx.open(K6);

    replay_regress(ctx);

    let max_len = ctx.tier.pick(4usize, 5usize);
    let mut total = 0u64;
    let mut b = 1u64;
    for _ in 0..=max_len {
        total += b;
        b *= ALPHA as u64;
    }
    ctx.enumerate(&format!("add-histories over 32 ops, length<={max_len}"), total, |i, st| {
        let ops = index_to_history(i, max_len);
        st.eval();
        if nontrivial(&ops) {
            st.nontrivial_distinct();
            if i % 100_003 == 7 {
                st.sample(|| history_json(&ops));
            }
        }
        verdict(open_k6, &ops, false, st)
    });

    let cases = ctx.tier.pick(1_000_000u64, 8_000_000u64);
    ctx.pbt("c13-random", cases, 600, |t, st| {
        let ops = gen_history(t, 60, false);
        st.eval();
        if nontrivial(&ops) {
            let fresh = st.nontrivial(hash64(&format!("{ops:?}")));
            if fresh && ops.len() >= 6 {
                st.sample(|| history_json(&ops));
            }
        }
        st.label(match ops.len() {
            0..=3 => "len 0-3",
            4..=15 => "len 4-15",
            _ => "len 16-60",
        });
        verdict(open_k6, &ops, true, st)
    });

    // probe: is the known finding still reachable from generated inputs?
    let probe_cases = ctx.tier.pick(4_000u64, 40_000u64);
    ctx.pbt("c13-probe-negzero", probe_cases, 300, |t, st| {
        let ops = gen_history(t, 30, true);
        st.eval();
        st.label("probe:-0.0 allowed");
        verdict(open_k6, &ops, true, st)
    });
}

fn parse_history(bytes: &[u8]) -> Option<Vec<Op>> {
    let v: Value = serde_json::from_slice(bytes).ok()?;
    v["ops"].as_array()?.iter().map(Op::from_json).collect()
}

/// Replay one artefact. Returns Ok(Some(key)) if it matched a known finding.
pub fn replay(ctx: &mut Ctx, ext: &str, bytes: &[u8]) -> Result<Option<String>, Fail> {
    let ops = match ext {
        "tape" => gen_history(&mut Tape::new(bytes), 60, true),
        _ => parse_history(bytes).ok_or_else(|| Fail::new("cannot parse history JSON", "json", bytes.to_vec()))?,
    };
    match run_history(&ops, true) {
        Ok(()) => Ok(None),
        Err((step, msg)) => {
            if ctx.open(K6) && classify_k6(&ops) {
                return Ok(Some(K6.to_string()));
            }
            Err(Fail::json(format!("after op #{step}: {msg}"), &history_json(&ops)))
        }
    }
}

fn replay_regress(ctx: &mut Ctx) {
    crate::props::replay_regress_generic(ctx, replay);
}
