pub mod engine;
pub mod props;
pub mod refmodel;
