pub mod engine;
pub mod gen;
pub mod io;
pub mod oracle;
pub mod props;
pub mod refmodel;
pub mod watchdog;
