pub mod cmp;
