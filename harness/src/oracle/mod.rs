pub mod cmp;
pub mod roundtrip;
