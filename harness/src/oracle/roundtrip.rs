//! C02 comparator: field-by-field comparison of two maps exactly as the
//! property statement enumerates, returning classified differences.

use rosu_map::section::general::GameMode;
use rosu_map::section::hit_objects::hit_samples::{HitSampleInfo, HitSampleInfoName, SampleBank};
use rosu_map::section::hit_objects::{CurveBuffers, HitObjectKind, HitObjectSlider, PathControlPoint, SplineType};
use rosu_map::section::timing_points::ControlPoints;
use rosu_map::Beatmap;

pub const REL: f64 = 1e-9;

pub fn close(a: f64, b: f64) -> bool {
    (a.is_nan() && b.is_nan()) || a == b || (a - b).abs() <= REL * a.abs().max(b.abs()).max(1.0)
}

#[derive(Clone, Debug, PartialEq)]
pub enum DiffKind {
    /// a plain field (name)
    Field(&'static str),
    TimingPoints,
    SliderVelocityTimeline,
    KiaiTimeline,
    ScrollTimeline { time: f64, a: f64, b: f64 },
    ObjectCount { a: usize, b: usize },
    ObjectKind,
    StartTime,
    Samples,
    Circle,
    Spinner,
    Hold,
    SliderBasic,
    ControlPoints,
    Velocity,
    NodeCount,
    NodeSamples,
    Curve,
    ExpectedDist,
}

#[derive(Clone, Debug)]
pub struct Diff {
    pub kind: DiffKind,
    pub obj: Option<usize>,
    pub detail: String,
}

fn names(s: &[HitSampleInfo]) -> Vec<(HitSampleInfoName, SampleBank)> {
    s.iter().map(|s| (s.name.clone(), s.bank)).collect()
}

pub fn cps_string(s: &HitObjectSlider) -> String {
    s.path
        .control_points()
        .iter()
        .map(|c| format!("{}:{}{}", c.pos.x, c.pos.y, c.path_type.map_or(String::new(), |t| format!("{:?}", t.kind)[..1].to_string())))
        .collect::<Vec<_>>()
        .join(" ")
}

/// C02's statement excludes "consecutive explicit Catmull segments"
pub fn has_consecutive_catmull(c: &[PathControlPoint]) -> bool {
    let mut seg_type = None;
    for (j, cp) in c.iter().enumerate() {
        if let Some(t) = cp.path_type {
            if j > 0 && t.kind == SplineType::Catmull && seg_type == Some(SplineType::Catmull) {
                return true;
            }
            seg_type = Some(t.kind);
        }
    }
    false
}

fn timeline_times(a: &ControlPoints, b: &ControlPoints) -> Vec<f64> {
    let mut times: Vec<f64> = vec![-1e12, 1e12];
    for cp in [a, b] {
        for p in &cp.difficulty_points {
            times.push(p.time);
        }
        for p in &cp.effect_points {
            times.push(p.time);
        }
    }
    times.sort_by(|x, y| x.total_cmp(y));
    times.dedup();
    // also between consecutive times
    let mids: Vec<f64> = times.windows(2).map(|w| w[0] + (w[1] - w[0]) / 2.0).collect();
    times.extend(mids);
    times
}

pub struct Opts {
    /// skip the curve comparison for sliders (cheaper)
    pub curves: bool,
}

pub fn compare(a: &mut Beatmap, b: &mut Beatmap, opts: &Opts) -> Vec<Diff> {
    let mut d: Vec<Diff> = vec![];
    macro_rules! eq {
        ($f:ident) => {
            if a.$f != b.$f {
                d.push(Diff { kind: DiffKind::Field(stringify!($f)), obj: None, detail: format!("{:?} != {:?}", a.$f, b.$f).chars().take(400).collect() });
            }
        };
    }
    eq!(format_version);
    eq!(audio_file);
    eq!(audio_lead_in);
    eq!(preview_time);
    eq!(stack_leniency);
    eq!(mode);
    eq!(letterbox_in_breaks);
    eq!(widescreen_storyboard);
    eq!(epilepsy_warning);
    eq!(samples_match_playback_rate);
    eq!(countdown);
    if a.countdown_offset > 0 {
        eq!(countdown_offset);
    }
    if a.mode == GameMode::Mania {
        eq!(special_style);
    }
    eq!(bookmarks);
    eq!(distance_spacing);
    eq!(beat_divisor);
    eq!(grid_size);
    eq!(timeline_zoom);
    eq!(title);
    eq!(title_unicode);
    eq!(artist);
    eq!(artist_unicode);
    eq!(creator);
    eq!(version);
    eq!(source);
    eq!(tags);
    if a.beatmap_id > 0 {
        eq!(beatmap_id);
    }
    if a.beatmap_set_id > 0 {
        eq!(beatmap_set_id);
    }
    eq!(hp_drain_rate);
    eq!(circle_size);
    eq!(overall_difficulty);
    eq!(approach_rate);
    eq!(slider_multiplier);
    eq!(slider_tick_rate);
    eq!(background_file);
    eq!(breaks);
    eq!(custom_combo_colors);
    eq!(custom_colors);
    if a.control_points.timing_points != b.control_points.timing_points {
        d.push(Diff {
            kind: DiffKind::TimingPoints,
            obj: None,
            detail: format!("{:?} != {:?}", a.control_points.timing_points, b.control_points.timing_points).chars().take(500).collect(),
        });
    }
    // effective step functions
    let (mut sv_done, mut kiai_done, mut scroll_done) = (false, false, false);
    for &t in &timeline_times(&a.control_points, &b.control_points) {
        let sa = a.control_points.difficulty_point_at(t).map_or(1.0, |p| p.slider_velocity);
        let sb = b.control_points.difficulty_point_at(t).map_or(1.0, |p| p.slider_velocity);
        if !sv_done && !close(sa, sb) {
            d.push(Diff { kind: DiffKind::SliderVelocityTimeline, obj: None, detail: format!("at {t}: {sa} != {sb}") });
            sv_done = true;
        }
        let ka = a.control_points.effect_point_at(t).map_or((false, 1.0), |p| (p.kiai, p.scroll_speed));
        let kb = b.control_points.effect_point_at(t).map_or((false, 1.0), |p| (p.kiai, p.scroll_speed));
        if !kiai_done && ka.0 != kb.0 {
            d.push(Diff { kind: DiffKind::KiaiTimeline, obj: None, detail: format!("at {t}: {} != {}", ka.0, kb.0) });
            kiai_done = true;
        }
        if !scroll_done && !close(ka.1, kb.1) {
            d.push(Diff { kind: DiffKind::ScrollTimeline { time: t, a: ka.1, b: kb.1 }, obj: None, detail: format!("at {t}: {} != {}", ka.1, kb.1) });
            scroll_done = true;
        }
    }
    if a.hit_objects.len() != b.hit_objects.len() {
        d.push(Diff {
            kind: DiffKind::ObjectCount { a: a.hit_objects.len(), b: b.hit_objects.len() },
            obj: None,
            detail: format!("{} != {}", a.hit_objects.len(), b.hit_objects.len()),
        });
        return d;
    }
    let mut bufs = CurveBuffers::default();
    for (i, (x, y)) in a.hit_objects.iter_mut().zip(b.hit_objects.iter_mut()).enumerate() {
        let mut push = |kind: DiffKind, detail: String| d.push(Diff { kind, obj: Some(i), detail: detail.chars().take(500).collect() });
        if x.start_time != y.start_time {
            push(DiffKind::StartTime, format!("{} != {}", x.start_time, y.start_time));
        }
        if names(&x.samples) != names(&y.samples) {
            push(DiffKind::Samples, format!("{:?} != {:?}", names(&x.samples), names(&y.samples)));
        }
        match (&mut x.kind, &mut y.kind) {
            (HitObjectKind::Circle(p), HitObjectKind::Circle(q)) => {
                if p != q {
                    push(DiffKind::Circle, format!("{:?} != {:?}", p, q));
                }
            }
            (HitObjectKind::Spinner(p), HitObjectKind::Spinner(q)) => {
                if p.pos != q.pos || p.new_combo != q.new_combo || !close(p.duration, q.duration) {
                    push(DiffKind::Spinner, format!("{:?} != {:?}", p, q));
                }
            }
            (HitObjectKind::Hold(p), HitObjectKind::Hold(q)) => {
                if p.pos_x != q.pos_x || !close(p.duration, q.duration) {
                    push(DiffKind::Hold, format!("{:?} != {:?}", p, q));
                }
            }
            (HitObjectKind::Slider(p), HitObjectKind::Slider(q)) => {
                if p.pos != q.pos || p.new_combo != q.new_combo || p.combo_offset != q.combo_offset || p.repeat_count != q.repeat_count {
                    push(
                        DiffKind::SliderBasic,
                        format!("pos {:?}/{:?} nc {}/{} co {}/{} repeats {}/{}", p.pos, q.pos, p.new_combo, q.new_combo, p.combo_offset, q.combo_offset, p.repeat_count, q.repeat_count),
                    );
                }
                let same_cps = p.path.control_points() == q.path.control_points();
                if !same_cps {
                    push(DiffKind::ControlPoints, format!("[{}] != [{}]", cps_string(p), cps_string(q)));
                }
                if !close(p.velocity, q.velocity) {
                    push(DiffKind::Velocity, format!("{} != {}", p.velocity, q.velocity));
                }
                if p.node_samples.len() != q.node_samples.len() {
                    push(DiffKind::NodeCount, format!("{} != {}", p.node_samples.len(), q.node_samples.len()));
                } else {
                    for (m, n) in p.node_samples.iter().zip(q.node_samples.iter()) {
                        if names(m) != names(n) {
                            push(DiffKind::NodeSamples, format!("{:?} != {:?}", names(m), names(n)));
                            break;
                        }
                    }
                }
                // path comparison is skipped for consecutive explicit Catmull segments (statement)
                if same_cps && opts.curves && !has_consecutive_catmull(p.path.control_points()) {
                    let ed = (p.path.expected_dist(), q.path.expected_dist());
                    let ca = p.path.curve_with_bufs(&mut bufs).clone();
                    let cb = q.path.curve_with_bufs(&mut bufs).clone();
                    let eqp = ca.path().len() == cb.path().len()
                        && ca.path().iter().zip(cb.path()).all(|(u, v)| (u.x == v.x || (u.x.is_nan() && v.x.is_nan())) && (u.y == v.y || (u.y.is_nan() && v.y.is_nan())));
                    let eql = ca.lengths().len() == cb.lengths().len() && ca.lengths().iter().zip(cb.lengths()).all(|(u, v)| close(*u, *v));
                    if !eqp || !eql {
                        push(DiffKind::Curve, format!("dist {} vs {}, requested {:?}, points [{}]", ca.dist(), cb.dist(), ed, cps_string(p)));
                    }
                    match ed {
                        (Some(u), Some(v)) if u == v => {}
                        (None, Some(v)) if close(v, ca.dist()) => {}
                        (None, None) => {}
                        _ => push(DiffKind::ExpectedDist, format!("{:?}, natural {}", ed, ca.dist())),
                    }
                }
            }
            _ => push(DiffKind::ObjectKind, "kinds differ".to_string()),
        }
    }
    d
}
