//! Comparators for decoded values.

use rosu_map::section::hit_objects::{CurveBuffers, HitObjectKind};
use rosu_map::Beatmap;

/// `Beatmap == Beatmap` plus what `PartialEq` leaves out: the requested slider
/// length. Returns a description of the first difference.
pub fn full_diff(a: &Beatmap, b: &Beatmap) -> Option<String> {
    if a != b {
        return Some(first_field_diff(a, b));
    }
    for (i, (x, y)) in a.hit_objects.iter().zip(&b.hit_objects).enumerate() {
        if let (HitObjectKind::Slider(p), HitObjectKind::Slider(q)) = (&x.kind, &y.kind) {
            let (e, f) = (p.path.expected_dist(), q.path.expected_dist());
            if e.map(f64::to_bits) != f.map(f64::to_bits) {
                return Some(format!("hit object {i}: requested slider length {e:?} != {f:?}"));
            }
        }
    }
    None
}

/// additionally compares the computed curves (bit-exact, NaN-aware)
pub fn full_diff_with_curves(a: &Beatmap, b: &Beatmap) -> Option<String> {
    if let Some(d) = full_diff(a, b) {
        return Some(d);
    }
    let mut bufs = CurveBuffers::default();
    let (mut a, mut b) = (a.clone(), b.clone());
    for (i, (x, y)) in a.hit_objects.iter_mut().zip(b.hit_objects.iter_mut()).enumerate() {
        if let (HitObjectKind::Slider(p), HitObjectKind::Slider(q)) = (&mut x.kind, &mut y.kind) {
            let ca = p.path.curve_with_bufs(&mut bufs).clone();
            let cb = q.path.curve_with_bufs(&mut bufs).clone();
            let same = ca.path().len() == cb.path().len()
                && ca.lengths().len() == cb.lengths().len()
                && ca.path().iter().zip(cb.path()).all(|(u, v)| u.x.to_bits() == v.x.to_bits() && u.y.to_bits() == v.y.to_bits())
                && ca.lengths().iter().zip(cb.lengths()).all(|(u, v)| u.to_bits() == v.to_bits());
            if !same {
                return Some(format!("hit object {i}: computed curves differ (dist {} vs {})", ca.dist(), cb.dist()));
            }
        }
    }
    None
}

pub fn first_field_diff(a: &Beatmap, b: &Beatmap) -> String {
    macro_rules! f {
        ($($name:ident),*) => { $( if a.$name != b.$name { return format!(concat!(stringify!($name), ": {:?} != {:?}"), a.$name, b.$name).chars().take(600).collect(); } )* }
    }
    f!(format_version, audio_file, audio_lead_in, preview_time, default_sample_bank, default_sample_volume, stack_leniency, mode,
       letterbox_in_breaks, special_style, widescreen_storyboard, epilepsy_warning, samples_match_playback_rate, countdown, countdown_offset,
       bookmarks, distance_spacing, beat_divisor, grid_size, timeline_zoom,
       title, title_unicode, artist, artist_unicode, creator, version, source, tags, beatmap_id, beatmap_set_id,
       hp_drain_rate, circle_size, overall_difficulty, approach_rate, slider_multiplier, slider_tick_rate,
       background_file, breaks, custom_combo_colors, custom_colors);
    if a.control_points != b.control_points {
        let (x, y) = (&a.control_points, &b.control_points);
        if x.timing_points != y.timing_points {
            return format!("timing_points: {:?} != {:?}", x.timing_points, y.timing_points).chars().take(600).collect();
        }
        if x.difficulty_points != y.difficulty_points {
            return format!("difficulty_points: {:?} != {:?}", x.difficulty_points, y.difficulty_points).chars().take(600).collect();
        }
        if x.effect_points != y.effect_points {
            return format!("effect_points: {:?} != {:?}", x.effect_points, y.effect_points).chars().take(600).collect();
        }
        return format!("sample_points: {:?} != {:?}", x.sample_points, y.sample_points).chars().take(600).collect();
    }
    if a.hit_objects.len() != b.hit_objects.len() {
        return format!("hit object count {} != {}", a.hit_objects.len(), b.hit_objects.len());
    }
    for (i, (x, y)) in a.hit_objects.iter().zip(&b.hit_objects).enumerate() {
        if x != y {
            return format!("hit object {i}: {:?} != {:?}", x, y).chars().take(900).collect();
        }
    }
    "values differ (NaN?)".to_string()
}
