//! Readers and writers with scripted delivery: chunk schedules, transient
//! interruptions and injected faults.

use std::io::{self, BufRead, ErrorKind, Read, Write};

/// payload that identifies an injected error
#[derive(Debug, Clone, Copy, PartialEq, Eq)]
pub struct Marker(pub u64);
impl std::fmt::Display for Marker {
    fn fmt(&self, f: &mut std::fmt::Formatter<'_>) -> std::fmt::Result {
        write!(f, "injected fault #{}", self.0)
    }
}
impl std::error::Error for Marker {}

pub fn injected(kind: ErrorKind, id: u64) -> io::Error {
    io::Error::new(kind, Marker(id))
}

pub fn marker_of(e: &io::Error) -> Option<u64> {
    e.get_ref().and_then(|r| r.downcast_ref::<Marker>()).map(|m| m.0)
}

#[derive(Clone, Debug, Default)]
pub struct Schedule {
    /// chunk lengths, used cyclically (each >= 1)
    pub chunks: Vec<usize>,
    /// 1-based numbers of the fill_buf/read calls that report `Interrupted` first
    pub interrupts: Vec<u64>,
    /// a run of consecutive calls (first call number, length) that all report `Interrupted`
    pub burst: Option<(u64, u64)>,
}

impl Schedule {
    pub fn fixed(n: usize) -> Self {
        Self { chunks: vec![n.max(1)], interrupts: vec![], burst: None }
    }
}

/// A reader over a byte slice that honours the `BufRead` contract (repeated `fill_buf`
/// without `consume` returns the same slice) and delivers the bytes by the schedule.
pub struct Scripted<'a> {
    data: &'a [u8],
    pos: usize,
    window_end: usize,
    sched: Schedule,
    next_chunk: usize,
    calls: u64,
    /// (offset, kind, id): after `offset` bytes every call fails
    pub fault: Option<(usize, ErrorKind, u64)>,
    /// the fault is reported exactly once; afterwards the stream continues
    pub one_shot: bool,
    fired: bool,
    pub max_window_inside_line: bool,
    pub chunks_delivered: usize,
}

impl<'a> Scripted<'a> {
    pub fn new(data: &'a [u8], sched: Schedule) -> Self {
        Self { data, pos: 0, window_end: 0, sched, next_chunk: 0, calls: 0, fault: None, one_shot: false, fired: false, max_window_inside_line: false, chunks_delivered: 0 }
    }
    pub fn with_fault(mut self, offset: usize, kind: ErrorKind, id: u64) -> Self {
        self.fault = Some((offset, kind, id));
        self
    }
    pub fn one_shot(mut self) -> Self {
        self.one_shot = true;
        self
    }
    fn limit(&self) -> usize {
        match self.fault {
            Some((off, _, _)) if !(self.one_shot && self.fired) => off.min(self.data.len()),
            _ => self.data.len(),
        }
    }
    fn window(&mut self) -> io::Result<(usize, usize)> {
        self.calls += 1;
        if self.sched.interrupts.contains(&self.calls) || self.sched.burst.map_or(false, |(a, n)| self.calls >= a && self.calls < a + n) {
            return Err(io::Error::new(ErrorKind::Interrupted, "transient"));
        }
        if self.window_end <= self.pos {
            if let Some((off, kind, id)) = self.fault {
                if self.pos >= off && !(self.one_shot && self.fired) {
                    self.fired = true;
                    return Err(injected(kind, id));
                }
            }
            let len = if self.sched.chunks.is_empty() { usize::MAX } else { self.sched.chunks[self.next_chunk % self.sched.chunks.len()].max(1) };
            self.next_chunk += 1;
            self.window_end = self.pos.saturating_add(len).min(self.limit());
            if self.window_end > self.pos {
                self.chunks_delivered += 1;
                let w = &self.data[self.pos..self.window_end];
                if !w.ends_with(b"\n") && self.window_end < self.data.len() {
                    self.max_window_inside_line = true;
                }
            }
        }
        Ok((self.pos, self.window_end))
    }
}

impl BufRead for Scripted<'_> {
    fn fill_buf(&mut self) -> io::Result<&[u8]> {
        let (a, b) = self.window()?;
        Ok(&self.data[a..b])
    }
    fn consume(&mut self, amt: usize) {
        assert!(self.pos + amt <= self.window_end, "consume beyond the filled window");
        self.pos += amt;
    }
}

impl Read for Scripted<'_> {
    fn read(&mut self, buf: &mut [u8]) -> io::Result<usize> {
        let (a, b) = self.window()?;
        let n = (b - a).min(buf.len());
        buf[..n].copy_from_slice(&self.data[a..a + n]);
        self.pos += n;
        Ok(n)
    }
}

/// what a writer does at a given output offset
#[derive(Clone, Debug, PartialEq)]
pub enum WriteFault {
    None,
    /// `write` returns Err(kind) once `offset` bytes were accepted
    ErrorAt(usize, ErrorKind, u64),
    /// `write` returns Ok(0) once `offset` bytes were accepted
    ZeroAt(usize),
    /// `flush` fails
    FlushError(ErrorKind, u64),
}

pub struct ScriptedWriter {
    pub out: Vec<u8>,
    pub fault: WriteFault,
    /// accept at most this many bytes per call (cyclic), 0 = unlimited
    pub short: Vec<usize>,
    pub interrupts: Vec<u64>,
    calls: u64,
    next_short: usize,
    pub flushed: u32,
}

impl ScriptedWriter {
    pub fn new(fault: WriteFault, short: Vec<usize>, interrupts: Vec<u64>) -> Self {
        Self { out: Vec::new(), fault, short, interrupts, calls: 0, next_short: 0, flushed: 0 }
    }
}

impl Write for ScriptedWriter {
    fn write(&mut self, buf: &[u8]) -> io::Result<usize> {
        self.calls += 1;
        if self.interrupts.contains(&self.calls) {
            return Err(io::Error::new(ErrorKind::Interrupted, "transient"));
        }
        let mut n = buf.len();
        if !self.short.is_empty() {
            let s = self.short[self.next_short % self.short.len()];
            self.next_short += 1;
            if s > 0 {
                n = n.min(s);
            }
        }
        match self.fault {
            WriteFault::ErrorAt(off, kind, id) => {
                if self.out.len() >= off {
                    return Err(injected(kind, id));
                }
                n = n.min(off - self.out.len());
            }
            WriteFault::ZeroAt(off) => {
                if self.out.len() >= off {
                    return Ok(0);
                }
                n = n.min(off - self.out.len());
            }
            _ => {}
        }
        self.out.extend_from_slice(&buf[..n]);
        Ok(n)
    }
    fn flush(&mut self) -> io::Result<()> {
        self.flushed += 1;
        if let WriteFault::FlushError(kind, id) = self.fault {
            return Err(injected(kind, id));
        }
        Ok(())
    }
}
