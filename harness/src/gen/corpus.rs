//! The bundled maps (read from /repo/resources at run time) and mutators over them.

use crate::engine::Tape;
use crate::refmodel::framing::{decode_bytes, encode_text, Enc, ENCS};
use std::sync::OnceLock;

pub struct Bundled {
    pub name: String,
    pub bytes: Vec<u8>,
    /// content after BOM detection (lossy)
    pub text: String,
}

static BUNDLED: OnceLock<Vec<Bundled>> = OnceLock::new();

pub fn bundled() -> &'static [Bundled] {
    BUNDLED.get_or_init(|| {
        let mut v = vec![];
        let dir = std::env::var("ROSU_RESOURCES").unwrap_or_else(|_| "/repo/resources".to_string());
        let mut entries: Vec<_> = std::fs::read_dir(&dir)
            .unwrap_or_else(|e| panic!("cannot read {dir}: {e}"))
            .filter_map(|e| e.ok())
            .map(|e| e.path())
            .filter(|p| p.is_file())
            .collect();
        entries.sort();
        for p in entries {
            let bytes = std::fs::read(&p).unwrap();
            let text = decode_bytes(&bytes);
            v.push(Bundled { name: p.file_name().unwrap().to_string_lossy().into_owned(), bytes, text });
        }
        assert!(!v.is_empty(), "no bundled maps found");
        v
    })
}

/// files of at most `max` bytes
pub fn small(max: usize) -> Vec<&'static Bundled> {
    bundled().iter().filter(|b| b.bytes.len() <= max).collect()
}

pub fn large(min: usize) -> Vec<&'static Bundled> {
    bundled().iter().filter(|b| b.bytes.len() > min).collect()
}

/// first `n` lines of a text
pub fn head_lines(text: &str, n: usize) -> String {
    let mut out = String::new();
    for l in text.split_inclusive('\n').take(n) {
        out.push_str(l);
    }
    out
}

pub fn pick_text(t: &mut Tape) -> &'static str {
    let b = bundled();
    let small: Vec<&Bundled> = b.iter().filter(|x| x.bytes.len() <= 8192).collect();
    if t.chance(12) {
        // a window of a large map
        let l: Vec<&Bundled> = b.iter().filter(|x| x.bytes.len() > 8192).collect();
        if !l.is_empty() {
            return &l[t.below(l.len())].text;
        }
    }
    &small[t.below(small.len())].text
}

const FIELD_POOL: &[&str] = &[
    "0", "1", "-1", "2147483647", "2147483648", "-2147483648", "1e99", "NaN", "inf", "", "0x10", "1,5", "131072", "131073", "9000", "9001", " 7 ", "+5", "1e2",
    "0.00000000000000005", "-0", "3.4028236e38", "1e-320", "x", ":", "|", "B", "P|1:1", "\u{4e0a}", "\"", "//", "[General]", "osu file format v3", "12:34",
    "1|2|3", "0:0:0:0:", "4294967296", "-9001", "255", "256", "128", "12", "6",
    // non-ASCII where ASCII is expected: letters whose code point ends like an ASCII letter / digit, full-width and other digits
    "\u{142}|1:1", "\u{142}", "\u{14c}", "\u{ff11}\u{ff12}", "\u{663}", "\u{131}", "\u{e9}.mp4", "\u{1F3B5}", "\u{a0}1", "1\u{3000}",
];

/// line-level mutations of a text
pub fn mutate_text(t: &mut Tape, text: &str) -> String {
    // mutations are line / field level: the line terminator (LF or CRLF) is not part of a line
    let crlf = text.contains("\r\n");
    let mut lines: Vec<String> = text.split('\n').map(|s| s.strip_suffix('\r').unwrap_or(s).to_string()).collect();
    if lines.len() > 400 {
        // keep a window of a large map
        let start = t.below(lines.len() - 300);
        let mut w: Vec<String> = lines[..40.min(lines.len())].to_vec();
        w.extend_from_slice(&lines[start..start + 260]);
        lines = w;
    }
    let n = 1 + t.below(4);
    for _ in 0..n {
        if lines.is_empty() {
            break;
        }
        let i = t.below(lines.len());
        match t.below(9) {
            0 => {
                lines.remove(i);
            }
            1 => {
                let l = lines[i].clone();
                lines.insert(i, l);
            }
            2 => {
                let j = t.below(lines.len());
                lines.swap(i, j);
            }
            3 => {
                // move to another place (possibly another section)
                let l = lines.remove(i);
                let j = t.below(lines.len() + 1);
                lines.insert(j, l);
            }
            4 | 5 => {
                // replace one field by a token from the pools
                let sep = if lines[i].contains(',') { ',' } else { ':' };
                let mut f: Vec<String> = lines[i].split(sep).map(|s| s.to_string()).collect();
                let k = t.below(f.len());
                f[k] = (*t.pick(FIELD_POOL)).to_string();
                lines[i] = f.join(&sep.to_string());
            }
            6 => {
                // delete or append a field
                let mut f: Vec<&str> = lines[i].split(',').collect();
                if f.len() > 1 && t.chance(50) {
                    let k = t.below(f.len());
                    f.remove(k);
                    lines[i] = f.join(",");
                } else {
                    lines[i] = format!("{},{}", lines[i], t.pick(FIELD_POOL));
                }
            }
            7 => {
                // truncate the line
                let cut = t.below(lines[i].len() + 1);
                let mut c = cut;
                while !lines[i].is_char_boundary(c) {
                    c -= 1;
                }
                lines[i].truncate(c);
            }
            _ => {
                lines.insert(i, (*t.pick(super::doc::GARBAGE)).to_string());
            }
        }
    }
    lines.join(if crlf { "\r\n" } else { "\n" })
}

/// splice two texts at line boundaries
pub fn splice(t: &mut Tape, a: &str, b: &str) -> String {
    let la: Vec<&str> = a.split('\n').collect();
    let lb: Vec<&str> = b.split('\n').collect();
    let ca = t.below(la.len().min(300) + 1);
    let cb = t.below(lb.len().min(300) + 1);
    let mut out: Vec<&str> = la[..ca].to_vec();
    out.extend_from_slice(&lb[cb..lb.len().min(cb + 300)]);
    out.join("\n")
}

/// byte-level mutations
pub fn mutate_bytes(t: &mut Tape, bytes: &mut Vec<u8>) {
    let n = 1 + t.below(4);
    for _ in 0..n {
        if bytes.is_empty() {
            bytes.push(t.byte());
            continue;
        }
        let i = t.below(bytes.len());
        match t.below(4) {
            0 => bytes[i] ^= 1 << t.below(8),
            1 => bytes.insert(i, t.byte()),
            2 => {
                bytes.remove(i);
            }
            _ => bytes[i] = *t.pick(&[0u8, 0x0A, 0x0D, 0xFF, 0xFE, 0xEF, 0x80, 0xC0, 0xED, 0xF4, b',', b':', b'|', b'[', b']', b'/']),
        }
    }
}

pub fn pick_enc(t: &mut Tape) -> Enc {
    ENCS[t.weighted(&[5, 1, 2, 2])]
}

pub fn reencode(text: &str, enc: Enc) -> Vec<u8> {
    encode_text(text, enc)
}
