pub mod corpus;
pub mod curve;
pub mod doc;
