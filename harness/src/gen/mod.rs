pub mod curve;
