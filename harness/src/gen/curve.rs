//! Generators for slider control-point lists (C16-C19).

use crate::engine::Tape;
use rosu_map::section::general::GameMode;
use rosu_map::section::hit_objects::{PathControlPoint, PathType, SplineType};
use rosu_map::util::Pos;
use serde_json::{json, Value};

pub const MODES: [GameMode; 4] = [GameMode::Osu, GameMode::Taiko, GameMode::Catch, GameMode::Mania];

pub fn gen_mode(t: &mut Tape) -> GameMode {
    MODES[t.below(4)]
}

/// `-` (untyped), `B` / `L` / `P` / `C`, optionally followed by a degree (`B3`; `L2` etc. can only be built
/// through the public fields - the kind alone decides the shape)
pub fn type_letter(t: Option<PathType>) -> String {
    match t {
        None => "-".to_string(),
        Some(t) => {
            let l = match t.kind {
                SplineType::BSpline => "B",
                SplineType::Linear => "L",
                SplineType::PerfectCurve => "P",
                SplineType::Catmull => "C",
            };
            match t.degree {
                Some(d) => format!("{l}{d}"),
                None => l.to_string(),
            }
        }
    }
}

pub fn letter_type(s: &str) -> Option<PathType> {
    let kind = match s.chars().next()? {
        'B' => SplineType::BSpline,
        'L' => SplineType::Linear,
        'P' => SplineType::PerfectCurve,
        'C' => SplineType::Catmull,
        _ => return None,
    };
    let degree = s[1..].parse::<i32>().ok().and_then(std::num::NonZeroI32::new);
    Some(PathType { kind, degree })
}

pub fn points_json(pts: &[PathControlPoint]) -> Value {
    Value::Array(
        pts.iter()
            .map(|p| json!([p.pos.x, p.pos.y, type_letter(p.path_type)]))
            .collect(),
    )
}

pub fn points_from_json(v: &Value) -> Option<Vec<PathControlPoint>> {
    v.as_array()?
        .iter()
        .map(|p| {
            Some(PathControlPoint {
                pos: Pos::new(p[0].as_f64()? as f32, p[1].as_f64()? as f32),
                path_type: letter_type(p[2].as_str()?),
            })
        })
        .collect()
}

pub fn mode_name(m: GameMode) -> &'static str {
    match m {
        GameMode::Osu => "osu",
        GameMode::Taiko => "taiko",
        GameMode::Catch => "catch",
        GameMode::Mania => "mania",
    }
}
pub fn mode_from_name(s: &str) -> Option<GameMode> {
    Some(match s {
        "osu" => GameMode::Osu,
        "taiko" => GameMode::Taiko,
        "catch" => GameMode::Catch,
        "mania" => GameMode::Mania,
        _ => return None,
    })
}

const TYPES: [PathType; 4] = [PathType::BEZIER, PathType::LINEAR, PathType::PERFECT_CURVE, PathType::CATMULL];

#[derive(Copy, Clone, Debug, PartialEq, Eq)]
pub enum CoordClass {
    TinyGrid,
    Screen,
    Quarter,
    Wide,
    Dups,
    Collinear,
    Huge,
    /// small magnitudes with points a few f32 ulps apart (distinct but nearly equal)
    NearDup,
    /// a polyline running many times between far-apart points and ending in a very short segment
    /// (cumulative length ~1e7 times the last segment)
    ZigZag,
    /// integer triples with a tiny exact cross product far from the origin (ill-conditioned f32 circumcircle)
    SmallCross,
}

fn gen_coord(t: &mut Tape, class: CoordClass) -> (f32, f32) {
    match class {
        CoordClass::TinyGrid => (t.int(-3, 3) as f32, t.int(-3, 3) as f32),
        CoordClass::Screen | CoordClass::Dups => (t.int(0, 512) as f32, t.int(0, 384) as f32),
        CoordClass::Quarter => (t.int(0, 2048) as f32 / 4.0, t.int(0, 1536) as f32 / 4.0),
        CoordClass::Wide => (t.int(-4096, 4096) as f32, t.int(-4096, 4096) as f32),
        CoordClass::Collinear => (0.0, 0.0), // filled by the caller
        CoordClass::Huge => (t.int(-262144, 262144) as f32, t.int(-262144, 262144) as f32),
        CoordClass::NearDup => (t.int(-2, 2) as f32, t.int(-2, 2) as f32),
        CoordClass::ZigZag | CoordClass::SmallCross => (0.0, 0.0), // built by the caller
    }
}

/// 1..=max_points control points with a type layout; the first point is typed
/// (as the decoder always produces) except with low probability.
pub fn gen_points(t: &mut Tape, max_points: usize, allow_huge: bool) -> (Vec<PathControlPoint>, CoordClass) {
    gen_points_ex(t, max_points, allow_huge, false)
}

/// `allow_near`: also generate points that are distinct but only a few f32 ulps (>= 1e-8) apart
pub fn gen_points_ex(t: &mut Tape, max_points: usize, allow_huge: bool, allow_near: bool) -> (Vec<PathControlPoint>, CoordClass) {
    let n = 1 + t.below(max_points);
    let class = match t.weighted(&[3, 4, 3, 2, 2, 2, if allow_huge { 1 } else { 0 }, if allow_near { 1 } else { 0 }, if allow_huge { 1 } else { 0 }, if allow_huge { 1 } else { 0 }]) {
        0 => CoordClass::TinyGrid,
        1 => CoordClass::Screen,
        2 => CoordClass::Quarter,
        3 => CoordClass::Wide,
        4 => CoordClass::Dups,
        5 => CoordClass::Collinear,
        6 => CoordClass::Huge,
        7 => CoordClass::NearDup,
        8 => CoordClass::ZigZag,
        _ => CoordClass::SmallCross,
    };
    if class == CoordClass::SmallCross {
        // 1..3 perfect-curve (or other) segments of three nearly collinear points each
        let nseg = 1 + t.below(3);
        let mut pts: Vec<PathControlPoint> = vec![];
        for _ in 0..nseg {
            let tri = crate::gen::doc::small_cross_triple(t);
            let ty = *t.pick(&[PathType::PERFECT_CURVE, PathType::PERFECT_CURVE, PathType::PERFECT_CURVE, PathType::BEZIER, PathType::CATMULL]);
            for (i, p) in tri.iter().enumerate() {
                pts.push(PathControlPoint { pos: Pos::new(p.0 as f32, p.1 as f32), path_type: if i == 0 { Some(ty) } else { None } });
            }
        }
        return (pts, class);
    }
    if class == CoordClass::ZigZag {
        // linear (or Bezier-of-two-points) runs between two far corners, then one short last segment
        let far = *t.pick(&[131072.0f32, 100000.0, 65536.0]);
        let runs = 20 + t.below(30);
        let (a, b) = (Pos::new(-far, -far + t.int(0, 64) as f32), Pos::new(far, far - t.int(0, 64) as f32));
        let mut pts: Vec<PathControlPoint> = (0..runs)
            .map(|i| PathControlPoint { pos: if i % 2 == 0 { a } else { b }, path_type: if i == 0 { Some(PathType::LINEAR) } else { None } })
            .collect();
        let last = pts.last().unwrap().pos;
        let d = *t.pick(&[1.0f32, 1.0, 2.0, 0.5, 3.0]);
        let (dx, dy) = *t.pick(&[(1.0f32, 0.0f32), (0.0, 1.0), (-1.0, 0.0), (0.0, -1.0)]);
        pts.push(PathControlPoint { pos: Pos::new(last.x + dx * d, last.y + dy * d), path_type: None });
        return (pts, class);
    }
    let mut pts: Vec<PathControlPoint> = Vec::with_capacity(n);
    // NearDup with offsets far below 1e-8 (down to 1e-16 next to a zero coordinate): polylines only - a curve type
    // that subdivides would create vertices whose squared distance underflows in f32
    let tiny = class == CoordClass::NearDup && t.chance(30);
    let (bx, by) = (t.int(0, 512) as f32, t.int(0, 384) as f32);
    let (dx, dy) = (t.int(-8, 8) as f32, t.int(-8, 8) as f32);
    for i in 0..n {
        let (x, y) = match class {
            CoordClass::Dups if i > 0 && t.chance(40) => (pts[i - 1].pos.x, pts[i - 1].pos.y),
            CoordClass::NearDup if i > 0 && t.chance(50) => {
                // the previous point moved by zero, one or a few f32 ulps / tiny offsets
                let (px, py) = (pts[i - 1].pos.x, pts[i - 1].pos.y);
                let d = if tiny { *t.pick(&[0.0f32, 1e-12, 1e-16, -1e-16, 1e-10]) } else { *t.pick(&[0.0f32, 1e-8, 1e-7, 1.2e-7, 2.4e-7, 1e-6, -1e-7, 1e-5]) };
                // (differences are 0 or >= 1e-16: a difference whose square underflows in f32 is outside the domain;
                // the smallest ones only survive next to a zero coordinate)
                if t.chance(50) || px.abs() < 1e-3 {
                    // (no ulp steps on tiny values: their square would underflow, see above)
                    (px + d, py)
                } else {
                    (f32::from_bits(px.to_bits().wrapping_add(t.below(3) as u32)), py + d)
                }
            }
            CoordClass::Collinear => {
                let k = t.int(-6, 6) as f32;
                (bx + dx * k, by + dy * k)
            }
            c => gen_coord(t, c),
        };
        let ty = if i == 0 {
            if t.chance(4) {
                None
            } else {
                Some(TYPES[t.below(4)])
            }
        } else if t.chance(20) {
            Some(TYPES[t.below(4)])
        } else {
            None
        };
        pts.push(PathControlPoint { pos: Pos::new(x, y), path_type: ty });
    }
    // nearly coincident points make the f32 circumcircle of a perfect curve divide by ~0 (NaN path): that is
    // the root cause of the known finding c17.huge_radius_arc_degenerates_to_chord, steered around here
    if class == CoordClass::NearDup {
        for p in pts.iter_mut() {
            if p.path_type == Some(PathType::PERFECT_CURVE) {
                p.path_type = Some(PathType::BEZIER);
            }
            if tiny && p.path_type.is_some() {
                p.path_type = Some(PathType::LINEAR);
            }
        }
    }
    // API-only combination: a degree on a kind that has none (the kind alone decides the shape)
    if t.chance(6) {
        for p in pts.iter_mut() {
            if let Some(ty) = p.path_type {
                if ty.kind != SplineType::BSpline {
                    p.path_type = Some(PathType { kind: ty.kind, degree: std::num::NonZeroI32::new(1 + (p.pos.x.abs() as i32) % 4) });
                }
            }
        }
    }
    // the decoder's lists are relative to the first point
    if t.chance(30) {
        let o = pts[0].pos;
        for p in pts.iter_mut() {
            p.pos = p.pos - o;
        }
    }
    (pts, class)
}

/// one segment of a given type with n points
pub fn gen_segment(t: &mut Tape, ty: PathType, n: usize, class: CoordClass) -> Vec<PathControlPoint> {
    (0..n)
        .map(|i| {
            let (x, y) = gen_coord(t, class);
            PathControlPoint { pos: Pos::new(x, y), path_type: if i == 0 { Some(ty) } else { None } }
        })
        .collect()
}

pub fn scale_of(pts: &[PathControlPoint]) -> f64 {
    pts.iter()
        .fold(1.0f64, |m, p| m.max(p.pos.x.abs() as f64).max(p.pos.y.abs() as f64))
}

pub fn hash_points(mode: GameMode, pts: &[PathControlPoint], l: Option<f64>) -> u64 {
    use std::hash::{Hash, Hasher};
    let mut h = std::collections::hash_map::DefaultHasher::new();
    (mode as u8).hash(&mut h);
    for p in pts {
        p.pos.x.to_bits().hash(&mut h);
        p.pos.y.to_bits().hash(&mut h);
        type_letter(p.path_type).hash(&mut h);
    }
    l.map(f64::to_bits).hash(&mut h);
    h.finish()
}
