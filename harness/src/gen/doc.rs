//! `OsuDoc`: a structured generator of `.osu` texts. Two modes:
//! *accepted* (every record is one the decoder accepts; timing points and hit
//! objects in chronological order - the domain of C02/C03) and *hostile*
//! (anything - C01, C04, C06, C07).

use crate::engine::Tape;

#[derive(Clone, Copy, PartialEq, Eq, Debug, Hash)]
pub enum SecName {
    General,
    Editor,
    Metadata,
    Difficulty,
    Events,
    TimingPoints,
    Colours,
    HitObjects,
}

pub const CANONICAL: [SecName; 8] = [
    SecName::General,
    SecName::Editor,
    SecName::Metadata,
    SecName::Difficulty,
    SecName::Events,
    SecName::TimingPoints,
    SecName::Colours,
    SecName::HitObjects,
];

impl SecName {
    pub fn header(self) -> &'static str {
        match self {
            SecName::General => "[General]",
            SecName::Editor => "[Editor]",
            SecName::Metadata => "[Metadata]",
            SecName::Difficulty => "[Difficulty]",
            SecName::Events => "[Events]",
            SecName::TimingPoints => "[TimingPoints]",
            SecName::Colours => "[Colours]",
            SecName::HitObjects => "[HitObjects]",
        }
    }
}

#[derive(Clone, Debug)]
pub struct DocSection {
    pub name: SecName,
    pub lines: Vec<String>,
}

#[derive(Clone, Debug)]
pub struct Doc {
    pub version_line: String,
    pub sections: Vec<DocSection>,
    pub mode: u8,
}

impl Doc {
    pub fn text(&self) -> String {
        let mut s = String::new();
        if !self.version_line.is_empty() {
            s.push_str(&self.version_line);
            s.push_str("\n\n");
        }
        for sec in &self.sections {
            s.push_str(sec.name.header());
            s.push('\n');
            for l in &sec.lines {
                s.push_str(l);
                s.push('\n');
            }
            s.push('\n');
        }
        s
    }
    pub fn section_mut(&mut self, name: SecName) -> Option<&mut DocSection> {
        self.sections.iter_mut().find(|s| s.name == name)
    }
}

/// switches that steer the generator away from the *known findings* of C02/C04
/// (true = avoid). See DESIGN.md section 5.
#[derive(Clone, Copy, Debug)]
pub struct Avoid {
    /// K1: `\\` or `//` inside file names
    pub k1: bool,
    /// K2: slider-velocity multiplier < 0.1 in taiko/mania (scroll speed below the sv clamp)
    pub k2: bool,
    /// K3: slider without a length whose natural length exceeds 131072
    pub k3: bool,
    /// K4: `Mode` declared after timing points / hit objects
    pub k4: bool,
    /// K5: degenerate duplicate control points / one-point segments
    pub k5: bool,
    /// K12: a sample file name inside a slider's per-node bank field
    pub k12: bool,
}

impl Avoid {
    pub const ALL: Avoid = Avoid { k1: true, k2: true, k3: true, k4: true, k5: true, k12: true };
    pub const NONE: Avoid = Avoid { k1: false, k2: false, k3: false, k4: false, k5: false, k12: false };
}

pub const TEXT_POOL: &[&str] = &[
    "abc", "Re:Zero", "x y", "[General]", "osu file format v9", "\u{4e0a}", "q\"q", "a,b", "1", "Tags tags", "\u{e9}", "|", "a/b", ": :",
    "\u{a0}z", "\u{3042}\u{3044}", "e\u{301}", "\u{1F3B5}", "[HitObjects]", "0,0,\"bg\"", "Mode: 3", "\u{10a}\u{a00}", "-", "#1", "(TV Size)",
    "\u{212a}\u{212a}.avi", "\u{130}\u{130}.AVI", "\u{212a}.mp4",
    // storyboard variables, words with a meaning elsewhere in the osu! ecosystem
    "$bg", "$t", "virtual", "none", "None", "default", "null", "auto", "true", "0", "-1",
    // UTF-16BE: bytes 00 0D 00 0A at an odd offset
    "\u{100}\u{d00}\u{a15}",
];

pub fn gen_text(t: &mut Tape, file: bool, avoid: Avoid) -> String {
    let mut s = String::new();
    let n = t.below(4);
    for _ in 0..n {
        s.push_str(*t.pick(TEXT_POOL));
        if t.chance(30) {
            s.push(' ');
        }
        if !avoid.k1 && t.chance(12) {
            s.push_str(*t.pick(&["\\", "//c", "\\\\", "a//b"]));
        }
    }
    if file {
        // file names: no commas (field separator), no quotes at the edges
        s = s.replace(',', "").replace('"', "");
        if avoid.k1 {
            s = s.replace('\\', "");
            while s.contains("//") {
                s = s.replace("//", "/");
            }
        }
    } else if avoid.k1 {
        // metadata is not comment-stripped, nothing to avoid
    }
    s.trim().to_string()
}

fn num_token(t: &mut Tape) -> String {
    match t.below(12) {
        0 => "0".into(),
        1 => "-1".into(),
        2 => format!("{}", t.int(0, 999)),
        3 => format!("{}.5", t.int(0, 999)),
        4 => format!("{}", t.int(0, 99999) as f64 / 7.0),
        5 => "2147483647".into(),
        6 => "-2147483647".into(),
        7 => format!("{}e2", t.int(0, 49)),
        8 => "0.1".into(),
        9 => format!("-{}", t.int(0, 299)),
        10 => format!(" +{} ", t.int(0, 9)),
        _ => format!("{}", t.int(0, 511)),
    }
}

fn int_token(t: &mut Tape) -> String {
    match t.below(8) {
        0 => "0".into(),
        1 => "-1".into(),
        2 => "2147483647".into(),
        3 => "-2147483647".into(),
        4 => format!(" +{} ", t.int(0, 99)),
        _ => format!("{}", t.int(-1000, 200000)),
    }
}

pub fn gen_general(t: &mut Tape, mode: u8, avoid: Avoid, with_mode: bool) -> Vec<String> {
    let mut v = vec![];
    if t.chance(80) {
        v.push(format!("AudioFilename: {}", gen_text(t, true, avoid)));
    }
    if t.chance(50) {
        v.push(format!("AudioLeadIn: {}", t.int(0, 3000)));
    }
    if t.chance(50) {
        v.push(format!("PreviewTime: {}", int_token(t)));
    }
    if t.chance(50) {
        v.push(format!("Countdown: {}", t.pick(&["0", "1", "2", "3", "None", "Normal", "Half speed", "Double speed"])));
    }
    if t.chance(50) {
        v.push(format!("SampleSet: {}", t.pick(&["Normal", "Soft", "Drum", "None", "1", "2", "0", "3"])));
    }
    if t.chance(30) {
        v.push(format!("SampleVolume: {}", t.int(0, 120)));
    }
    if t.chance(50) {
        v.push(format!("StackLeniency: {}", num_token(t)));
    }
    if with_mode {
        v.push(format!("Mode: {mode}"));
    }
    for k in ["LetterboxInBreaks", "SpecialStyle", "WidescreenStoryboard", "EpilepsyWarning", "SamplesMatchPlaybackRate"] {
        if t.chance(50) {
            v.push(format!("{k}: {}", t.below(3)));
        }
    }
    if t.chance(30) {
        v.push(format!("CountdownOffset: {}", t.int(-3, 50)));
    }
    v
}

pub fn gen_editor(t: &mut Tape) -> Vec<String> {
    let mut v = vec![];
    if t.chance(50) {
        let n = t.below(5);
        v.push(format!("Bookmarks: {}", (0..n).map(|_| t.int(-100, 100000).to_string()).collect::<Vec<_>>().join(",")));
    }
    for k in ["DistanceSpacing", "BeatDivisor", "GridSize", "TimelineZoom"] {
        if t.chance(50) {
            let val = if k == "BeatDivisor" || k == "GridSize" { int_token(t) } else { num_token(t) };
            v.push(format!("{k}: {val}"));
        }
    }
    v
}

pub fn gen_metadata(t: &mut Tape, avoid: Avoid) -> Vec<String> {
    let mut v = vec![];
    for k in ["Title", "TitleUnicode", "Artist", "ArtistUnicode", "Creator", "Version", "Source", "Tags"] {
        if t.chance(60) {
            v.push(format!("{k}:{}", gen_text(t, false, avoid)));
        }
    }
    if t.chance(60) {
        v.push(format!("BeatmapID:{}", t.int(-100, 100000)));
    }
    if t.chance(60) {
        v.push(format!("BeatmapSetID:{}", t.int(-100, 100000)));
    }
    v
}

pub fn gen_difficulty(t: &mut Tape) -> Vec<String> {
    let mut keys = vec!["HPDrainRate", "CircleSize", "OverallDifficulty", "ApproachRate", "SliderMultiplier", "SliderTickRate"];
    if t.chance(30) {
        keys.swap(2, 3); // AR before OD
    }
    let mut v = vec![];
    for k in keys {
        if t.chance(60) {
            let val = if t.chance(70) { format!("{}", t.int(0, 100) as f64 / 10.0) } else { num_token(t) };
            v.push(format!("{k}:{val}"));
        }
    }
    v
}

/// breaks are sorted and do not overlap; returns lines
pub fn gen_events(t: &mut Tape, avoid: Avoid) -> Vec<String> {
    let mut v = vec![];
    if t.chance(50) {
        v.push(format!("0,0,\"{}\",0,0", gen_text(t, true, avoid)));
    }
    if t.chance(20) {
        v.push(format!("Video,0,\"{}.{}\"", gen_text(t, true, avoid), t.pick(&["mp4", "jpg", "AVI", "png"])));
    }
    if t.chance(20) {
        v.push(format!("4,0,0,\"{}\",1,2", gen_text(t, true, avoid)));
    }
    if t.chance(15) {
        v.push((*t.pick(&["3,100,163,162,255", "Sample,300,0,\"a.wav\",60", "6,0,0,\"x.png\",1,2,3,4,5", "5,1,1", "Colour,0,1,2,3"])).to_string());
    }
    let mut bt = t.int(0, 20000);
    let n = t.below(4);
    for _ in 0..n {
        let a = bt;
        let b = a + t.int(-300, 5000);
        if t.chance(20) {
            v.push(format!("Break,{a}.5,{b}.25"));
        } else {
            v.push(format!("2,{a},{b}"));
        }
        bt = a.max(b) + 1 + t.int(0, 20000);
    }
    v
}

pub fn gen_colours(t: &mut Tape) -> Vec<String> {
    let mut v = vec![];
    if t.chance(10) {
        // exactly the crate's public default palette (or its first entries): an explicit list that happens to
        // equal a default is still an explicit list
        let k = *t.pick(&[4usize, 4, 2, 1]);
        for (i, c) in rosu_map::section::colors::Colors::DEFAULT_COMBO_COLORS.iter().take(k).enumerate() {
            v.push(format!("Combo{} : {},{},{}", i + 1, c.red(), c.green(), c.blue()));
        }
    } else {
        let n = t.below(5);
        for i in 0..n {
            v.push(format!("Combo{} : {},{},{}", i + 1, t.below(256), t.below(256), t.below(256)));
        }
    }
    if t.chance(30) {
        v.push(format!("SliderBorder: {},{},{},7", t.below(256), t.below(256), t.below(256)));
    }
    if t.chance(20) {
        v.push(format!("SliderBorder: {},{},{}", t.below(256), t.below(256), t.below(256)));
    }
    if t.chance(20) {
        v.push(format!("{}: {},{},{}", t.pick(&["SliderTrackOverride", "My Colour", "x", "_SliderBorder", "_x", "-x", "#c"]), t.below(256), t.below(256), t.below(256)));
    }
    v
}

/// chronological `[TimingPoints]` lines, all accepted
pub fn gen_timing(t: &mut Tape, mode: u8, avoid: Avoid) -> Vec<String> {
    let mut v = vec![];
    let mut time: f64 = -(t.int(0, 2000) as f64);
    let n = t.below(9);
    let scroll_mode = mode == 1 || mode == 3;
    for _ in 0..n {
        if t.chance(70) {
            time += t.int(0, 12000) as f64 / 4.0;
        }
        let uninh = t.chance(45);
        let bl: &str = if uninh {
            *t.pick(&["500", "333.33", "1", "100000", "0.5", "300", "-20", "0", "6", "60000"])
        } else {
            let mut b = *t.pick(&["-100", "-50", "-200", "-1000", "-2000", "-5", "-1", "-133.33", "-100", "NaN", "-7", "50", "-10", "-12.5", "-199.99999999999997", "-200.00000000000003", "-100.00000000000001"]);
            if avoid.k2 && scroll_mode && b == "-2000" {
                b = "-1000";
            }
            b
        };
        let mut l = format!("{time},{bl}");
        let fields = [
            format!("{}", t.pick(&[4, 3, 7, 0, 1])),
            format!("{}", t.below(5)),
            format!("{}", t.pick(&[0, 0, 1, 2, 5])),
            format!("{}", t.pick(&[100, 50, 0, 5, 120])),
            format!("{}", uninh as u8),
            format!("{}", t.pick(&[0, 1, 8, 9, 0])),
        ];
        let nf = if !uninh { 6 } else { *t.pick(&[0usize, 1, 2, 3, 4, 5, 6, 6, 6]) };
        for f in fields.iter().take(nf) {
            l.push(',');
            l.push_str(f);
        }
        v.push(l);
    }
    v
}

fn gen_point(t: &mut Tape, avoid: Avoid) -> (i64, i64) {
    if !avoid.k3 && t.chance(10) {
        (t.int(-131072, 131072), t.int(-131072, 131072))
    } else {
        (t.int(0, 512), t.int(0, 384))
    }
}

/// path string; with `avoid.k5` no degenerate duplicates, no one-point inner segments
/// and no consecutive Catmull segments (excluded by C02's statement)
pub fn gen_path(t: &mut Tape, avoid: Avoid, origin: (i64, i64)) -> String {
    let letters = ["B", "L", "P", "C", "B3", "X", "B", "L"];
    let nseg = 1 + t.below(3);
    let mut out: Vec<String> = vec![];
    let mut last = origin;
    let mut last_letter = "";
    for si in 0..nseg {
        let mut letter = *t.pick(&letters);
        if avoid.k5 && (letter == "C" || letter == "X") && (last_letter == "C" || last_letter == "X") {
            letter = "B";
        }
        let np = if avoid.k5 {
            if si == nseg - 1 {
                1 + t.below(4)
            } else {
                2 + t.below(3)
            }
        } else if t.chance(15) {
            0
        } else {
            1 + t.below(4)
        };
        out.push(letter.to_string());
        for pi in 0..np {
            let mut p = if !avoid.k5 && t.chance(15) {
                last
            } else if !avoid.k5 && t.chance(10) {
                origin
            } else {
                gen_point(t, avoid)
            };
            if avoid.k5 {
                let mut guard = 0;
                while p == last && guard < 8 {
                    p = gen_point(t, avoid);
                    guard += 1;
                }
                if p == last {
                    p = (last.0 + 7, last.1 + 3);
                }
            }
            out.push(format!("{}:{}", p.0, p.1));
            // the implicit-segment idiom: a duplicated inner point (not Catmull / perfect, not at the ends)
            if letter != "C" && letter != "X" && letter != "P" && pi + 2 < np && pi >= 1 && t.chance(15) {
                out.push(format!("{}:{}", p.0, p.1));
            }
            last = p;
        }
        last_letter = letter;
    }
    // a duplicate at the very end is an idiom the decoder ignores
    if !avoid.k5 && t.chance(10) && out.len() > 1 && !out.last().unwrap().chars().next().unwrap().is_ascii_alphabetic() {
        let l = out.last().unwrap().clone();
        out.push(l);
    }
    out.join("|")
}

fn gen_extras(t: &mut Tape) -> String {
    match t.below(6) {
        0 => String::new(),
        1 => format!(",{}:{}:{}:{}:", t.below(4), t.below(4), t.below(3), t.below(101)),
        2 => format!(",{}:{}", t.below(4), t.below(4)),
        3 => format!(",{}:{}:{}:{}:file.wav", t.below(4), t.below(4), t.below(3), t.below(101)),
        4 => format!(",{}:{}:{}:{}:{}", t.below(4), t.below(4), t.below(5), t.below(101), t.pick(&["a b.ogg", "\u{4e0a}.wav", "x:y.wav"])),
        _ => ",0:0:0:0:".into(),
    }
}

/// chronological `[HitObjects]` lines, all accepted
pub fn gen_objects(t: &mut Tape, avoid: Avoid, max: usize) -> Vec<String> {
    let mut v = vec![];
    let mut time: f64 = -(t.int(0, 1000) as f64);
    let n = t.below(max + 1);
    for _ in 0..n {
        if t.chance(80) {
            time += (1 + t.int(0, 16000)) as f64 / 4.0;
        }
        let (x, y) = gen_point(t, avoid);
        let combo = ((t.below(8) as u32) << 4) | if t.chance(30) { 4 } else { 0 };
        let sound = t.below(16);
        let extras = gen_extras(t);
        match t.below(10) {
            0..=3 => v.push(format!("{x},{y},{time},{},{sound}{extras}", 1 | combo)),
            4..=7 => {
                let p = gen_path(t, avoid, (x, y));
                let rep = *t.pick(&[0u32, 1, 1, 1, 2, 3, 5]);
                let len = match t.below(6) {
                    0 => String::new(),
                    1 => ",0".into(),
                    2 => format!(",{}", t.int(0, 600)),
                    3 => format!(",{}.{}", t.int(0, 400), t.int(0, 999)),
                    4 => ",1".into(),
                    _ => format!(",{}", t.int(20, 220)),
                };
                let mut l = format!("{x},{y},{time},{},{sound},{p},{rep}{len}", 2 | combo);
                if !len.is_empty() && t.chance(60) {
                    let nn = rep.max(1) + 1;
                    l.push(',');
                    l.push_str(&(0..nn).map(|_| t.below(16).to_string()).collect::<Vec<_>>().join("|"));
                    if t.chance(70) {
                        l.push(',');
                        let sets: Vec<String> = (0..nn)
                            .map(|_| {
                                if !avoid.k12 && t.chance(25) {
                                    format!("{}:{}:{}:{}:{}", t.below(4), t.below(4), t.below(3), t.below(101), t.pick(&["node.wav", "n 1.ogg"]))
                                } else {
                                    format!("{}:{}", t.below(4), t.below(4))
                                }
                            })
                            .collect();
                        l.push_str(&sets.join("|"));
                        if t.chance(70) {
                            l.push_str(&extras);
                        }
                    }
                }
                v.push(l);
            }
            8 => {
                let e = time + t.int(-200, 3000) as f64;
                v.push(format!("256,192,{time},{},{sound},{e}{extras}", 8 | (combo & 4)));
            }
            _ => {
                let e = time + t.int(-200, 3000) as f64;
                let ex = if extras.is_empty() { String::new() } else { format!(":{}", &extras[1..]) };
                v.push(format!("{x},192,{time},128,{sound},{e}{ex}"));
            }
        }
    }
    v
}

pub fn gen_version(t: &mut Tape) -> i32 {
    *t.pick(&[14, 14, 14, 3, 5, 7, 8, 9, 12, 128, 6, 4, 10, 13])
}

/// accepted-mode document: canonical section order unless `!avoid.k4`
pub fn gen_accepted(t: &mut Tape, avoid: Avoid, max_objects: usize) -> Doc {
    let ver = gen_version(t);
    let mode = t.below(4) as u8;
    let mut sections = vec![
        DocSection { name: SecName::General, lines: gen_general(t, mode, avoid, true) },
        DocSection { name: SecName::Editor, lines: gen_editor(t) },
        DocSection { name: SecName::Metadata, lines: gen_metadata(t, avoid) },
        DocSection { name: SecName::Difficulty, lines: gen_difficulty(t) },
        DocSection { name: SecName::Events, lines: gen_events(t, avoid) },
        DocSection { name: SecName::TimingPoints, lines: gen_timing(t, mode, avoid) },
        DocSection { name: SecName::Colours, lines: gen_colours(t) },
        DocSection { name: SecName::HitObjects, lines: gen_objects(t, avoid, max_objects) },
    ];
    // section order is free in the format; keep General first unless K4 is allowed
    if t.chance(25) {
        let i = 1 + t.below(7);
        let j = 1 + t.below(7);
        sections.swap(i, j);
    }
    if !avoid.k4 && t.chance(40) {
        let j = 1 + t.below(7);
        sections.swap(0, j);
    }
    Doc { version_line: format!("osu file format v{ver}"), sections, mode }
}

pub const GARBAGE: &[&str] = &[
    "", "   ", "// comment", "garbage", ",,,,", ":", "::::", "[Unknown]", "[general]", "[]", "key: value", "1,2,3", "-", "\u{feff}x", "|||", "0:0:0:0:",
    "x,y,z,1,0", "NaN,NaN,NaN,1,0", "9999999999999999999999", "1e400,1e400,0,1,0", "256,192,0,12,0,99999999999", "a:b|c:d", "osu file format v14",
    "_SliderBorder : 10,20,30", "_Combo2 : 4,5,6", "_Title:x", "_0,500,4,1,0,100,1,0", "_100,100,1000,1,0", " F,0,0,1000,1", "_F,0,0,1000,1",
    "osu file format v1v4", "osu file format v14 v7",
    "[Variables]", "$bg=real bg.jpg", "$t=1234", "0,0,\"$bg\",0,0", "2,$t,5000", "Video,$t,\"$bg\"",
    "osu file format v-1", "Combo1: 300,0,0", "\t\t", "\u{0}", "100,100,0,2,0,B|,1,1", "100,100,0,2,0,|||,1,1", "100,100,0,2,0,B|1:1|B|2:2|B|3:3|B|4:4,1,1",
];

/// hostile document: accepted lines mixed with hostile records, garbage, repeated and
/// shuffled sections, odd version lines
pub fn gen_hostile(t: &mut Tape, max_objects: usize) -> Doc {
    let mut doc = gen_accepted(t, Avoid::NONE, max_objects);
    let mode = doc.mode;
    doc.version_line = match t.weighted(&[5, 1, 1, 1, 1]) {
        0 => doc.version_line,
        1 => String::new(),
        2 => (*t.pick(&["osu file format v", "osu file format vX", "osu file format v14 // c", " osu file format v14", "osu file format v2147483648", "[General]", "osu file format v7v", "hello"])).to_string(),
        3 => format!("osu file format v{}", t.int(-5, 200)),
        _ => "\u{feff}osu file format v14".to_string(),
    };
    // a [Variables] section (storyboard variables) ahead of everything else: no decoder may substitute them
    if t.chance(10) {
        doc.version_line.push_str("\n\n[Variables]\n$bg=real bg.jpg\n$t=1234\n$x=[HitObjects]\n");
    }
    // hostile records per section
    let mut clock_tp = -500.0;
    let mut clock_ho = 0i64;
    for sec in doc.sections.iter_mut() {
        let extra = t.below(5);
        for _ in 0..extra {
            let line = match sec.name {
                SecName::TimingPoints => crate::props::c12::gen_line_pub(t, true, &mut clock_tp),
                SecName::HitObjects => crate::props::c14::genline_pub(t, &mut clock_ho),
                SecName::General => crate::props::c11::hostile_line(t, crate::refmodel::kv::Sec::General),
                SecName::Editor => crate::props::c11::hostile_line(t, crate::refmodel::kv::Sec::Editor),
                SecName::Metadata => crate::props::c11::hostile_line(t, crate::refmodel::kv::Sec::Metadata),
                SecName::Difficulty => crate::props::c11::hostile_line(t, crate::refmodel::kv::Sec::Difficulty),
                SecName::Events => crate::props::c11::hostile_line(t, crate::refmodel::kv::Sec::Events),
                SecName::Colours => crate::props::c11::hostile_line(t, crate::refmodel::kv::Sec::Colours),
            };
            let pos = t.below(sec.lines.len() + 1);
            sec.lines.insert(pos, line);
        }
        if t.chance(20) {
            let pos = t.below(sec.lines.len() + 1);
            sec.lines.insert(pos, (*t.pick(GARBAGE)).to_string());
        }
        // out-of-order lines
        if sec.lines.len() >= 2 && t.chance(15) {
            let i = t.below(sec.lines.len());
            let j = t.below(sec.lines.len());
            sec.lines.swap(i, j);
        }
    }
    // repeated / extra sections
    if t.chance(30) {
        let name = *t.pick(&CANONICAL);
        let lines = match name {
            SecName::General => {
                let with_mode = t.chance(50);
                gen_general(t, (mode + 1) % 4, Avoid::NONE, with_mode)
            }
            SecName::TimingPoints => gen_timing(t, mode, Avoid::NONE),
            SecName::HitObjects => gen_objects(t, Avoid::NONE, 3),
            SecName::Events => gen_events(t, Avoid::NONE),
            SecName::Colours => gen_colours(t),
            SecName::Metadata => gen_metadata(t, Avoid::NONE),
            SecName::Editor => gen_editor(t),
            SecName::Difficulty => gen_difficulty(t),
        };
        let pos = t.below(doc.sections.len() + 1);
        doc.sections.insert(pos, DocSection { name, lines });
    }
    if t.chance(15) {
        let n = doc.sections.len();
        let i = t.below(n);
        let j = t.below(n);
        doc.sections.swap(i, j);
    }
    doc
}

// ---------- scale: very long lines, very many lines ----------

/// line lengths (in characters of fill) around the sizes at which readers typically change behaviour
/// (4 KiB, the 8 KiB BufReader default, 16/32/64/128 KiB) and well beyond
pub const LONG_LENS: &[usize] = &[4096, 8192, 8192, 16384, 32768, 65536, 65536, 65536, 70000, 131072, 131072, 200000];

/// `chars` characters of fill without line breaks, commas or colons: ASCII, ASCII with inner blanks,
/// 2-/3-byte characters, characters above U+FFFF (two UTF-16 units; optionally shifted by one BMP
/// character so that pairs start at odd unit indices) or a mixture
pub fn long_fill(t: &mut Tape, chars: usize) -> String {
    let cyc: &[&str] = match t.below(7) {
        0 => &["a"],
        1 => &["a", "b", " ", "c"],
        2 => &["\u{e9}"],
        3 => &["\u{4e0a}"],
        4 => &["\u{1F600}"],
        5 => &["a", "\u{4e0a}", "\u{1F600}", "\u{e9}", " ", "z"],
        _ => &["x", "\u{1F3B5}", "\u{1F3B5}", "\u{1F3B5}"],
    };
    let mut s = String::with_capacity(chars * 2);
    if t.chance(50) {
        s.push('q'); // parity shift for the UTF-16 unit index of the pairs
    }
    for i in 0..chars {
        s.push_str(cyc[i % cyc.len()]);
    }
    s
}

/// a length near one of LONG_LENS (+-9)
pub fn long_len(t: &mut Tape) -> usize {
    let base = *t.pick(LONG_LENS);
    (base as i64 + t.int(-9, 9)).max(1) as usize
}

/// one very long line for a document: (section header it belongs under, line)
pub fn long_line(t: &mut Tape) -> (&'static str, String) {
    let n = long_len(t);
    match t.below(6) {
        0 => ("[Metadata]", format!("Tags: {}", long_fill(t, n))),
        1 => ("[Metadata]", format!("TitleUnicode:{}", long_fill(t, n))),
        2 => ("[Events]", format!("// {}", long_fill(t, n))),
        3 => ("[Editor]", format!("Bookmarks: {}", (0..n / 8 + 1).map(|i| (1000000 + i * 7).to_string()).collect::<Vec<_>>().join(","))),
        4 => {
            // a slider with very many anchors (about 8 bytes each)
            let k = n / 8 + 2;
            let pts: Vec<String> = (0..k).map(|i| format!("{}:{}", 100 + (i * 7) % 300, 100 + (i * 13) % 200)).collect();
            ("[HitObjects]", format!("100,100,1000,2,0,B|{},1,100", pts.join("|")))
        }
        _ => ("[Difficulty]", format!("garbage {}", long_fill(t, n))),
    }
}

/// a small accepted document with one very long line somewhere in it
pub fn gen_long_line_doc(t: &mut Tape) -> String {
    let (sec, line) = long_line(t);
    let mut s = String::from("osu file format v14\n\n[General]\nMode: 1\n\n[Metadata]\nTitle:before\n\n");
    s.push_str(sec);
    s.push('\n');
    if sec == "[HitObjects]" && t.chance(50) {
        s.push_str("50,50,500,1,0\n");
    }
    s.push_str(&line);
    s.push_str(if t.chance(30) { "\r\n" } else { "\n" });
    if sec == "[HitObjects]" {
        s.push_str("60,60,5000,1,0\n");
    }
    s.push_str("\n[Difficulty]\nCircleSize:3\nOverallDifficulty:7\n\n[TimingPoints]\n0,500,4,1,0,100,1,0\n");
    if sec != "[HitObjects]" {
        s.push_str("\n[HitObjects]\n100,100,1000,1,0\n");
    }
    s
}

/// a document with very many lines the parsers reject (storyboard commands, garbage) before real content
pub fn gen_many_lines_doc(t: &mut Tape) -> String {
    let n = *t.pick(&[1000usize, 4096, 65536, 65537, 65600, 70000, 131073]);
    let (sec, line): (&str, &str) = *t.pick(&[
        ("[Events]", " F,0,0,1000,1"),
        ("[Events]", "Sprite,Foreground"),
        ("[Difficulty]", "garbage"),
        ("[TimingPoints]", "x,y"),
        ("[HitObjects]", "1,2"),
        ("[Colours]", "Combo1 : 1,2"),
        ("[General]", "Mode: x"),
    ]);
    let mut s = String::with_capacity(n * (line.len() + 1) + 400);
    s.push_str("osu file format v14\n\n[General]\nMode: 0\n\n");
    s.push_str(sec);
    s.push('\n');
    for _ in 0..n {
        s.push_str(line);
        s.push('\n');
    }
    s.push_str("\n[Metadata]\nTitle:after\n\n[Difficulty]\nCircleSize:3\n\n[TimingPoints]\n0,500,4,1,0,100,1,0\n100,-50,4,1,0,100,0,0\n\n[Colours]\nCombo1 : 1,2,3\n\n[HitObjects]\n100,100,1000,1,0\n200,100,2000,2,0,L|300:100,1,100\n");
    s
}

/// three integer points at large coordinates whose exact cross product is tiny (|cross| = m*s with small m, s):
/// a = origin offset, b = a + m*v, c = b + n*v + s*w where v x w = 1 (extended gcd). The f32 circumcircle of
/// such a triple computed from absolute coordinates cancels catastrophically.
pub fn small_cross_triple(t: &mut Tape) -> [(i64, i64); 3] {
    fn egcd(a: i64, b: i64) -> (i64, i64, i64) {
        if b == 0 {
            (a, 1, 0)
        } else {
            let (g, x, y) = egcd(b, a % b);
            (g, y, x - (a / b) * y)
        }
    }
    let (mut p, mut q) = (t.int(-40, 40), t.int(1, 3000));
    if t.chance(50) {
        std::mem::swap(&mut p, &mut q);
    }
    let (g, x, y) = egcd(p, q);
    let (p, q) = (p / g, q / g);
    // p*x + q*y = 1  =>  v = (p, q), w = (-y, x): v x w = p*x + q*y = 1
    let w = (-y, x);
    let m = t.int(1, 12);
    let n = t.int(1, 12);
    let sgn = if t.chance(50) { 1 } else { -1 };
    let s_ = sgn * t.int(1, 12);
    let a = (t.int(-60000, 60000), t.int(-60000, 60000));
    let b = (a.0 + m * p, a.1 + m * q);
    let c = (b.0 + n * p + s_ * w.0, b.1 + n * q + s_ * w.1);
    [a, b, c]
}

/// a slider line with hostile geometry: up to four segments of any type whose points are nearly collinear
/// at large coordinates (+-1..3 off a line), coincident, or spread over the whole +-131072 range
pub fn geometry_slider(t: &mut Tape, time: i64) -> String {
    let (x, y) = (t.int(0, 512), t.int(0, 384));
    let nseg = 1 + t.below(4);
    let mut out: Vec<String> = vec![];
    let mut last = (x, y);
    for _ in 0..nseg {
        out.push((*t.pick(&["P", "P", "B", "L", "C", "B3", "P"])).to_string());
        let np = 1 + t.below(4);
        let dir = (t.int(-20000, 20000), t.int(-20000, 20000));
        let style = t.below(5);
        if style == 4 {
            // exactly three points with a tiny exact cross product at large coordinates
            for p in small_cross_triple(t) {
                let p = (p.0.clamp(-131072, 131072), p.1.clamp(-131072, 131072));
                out.push(format!("{}:{}", p.0, p.1));
                last = p;
            }
            continue;
        }
        for _ in 0..np {
            let p = match style {
                // nearly collinear continuation
                0 | 1 => {
                    let f = t.int(1, 12);
                    let q = if style == 0 { 12 } else { 1 };
                    (last.0 + dir.0 * f / q + t.int(-3, 3), last.1 + dir.1 * f / q + t.int(-3, 3))
                }
                2 => (last.0 + t.int(-2, 2), last.1 + t.int(-2, 2)),
                _ => (t.int(-131072, 131072), t.int(-131072, 131072)),
            };
            let p = (p.0.clamp(-131072, 131072), p.1.clamp(-131072, 131072));
            out.push(format!("{}:{}", p.0, p.1));
            last = p;
        }
    }
    let rep = *t.pick(&[1u32, 1, 2, 3]);
    let len = match t.below(5) {
        0 => String::new(),
        1 => ",0".to_string(),
        2 => format!(",{}", t.int(1, 400)),
        3 => format!(",{}", t.int(400, 100000)),
        _ => ",100".to_string(),
    };
    format!("{x},{y},{time},2,0,{},{rep}{len}", out.join("|"))
}

/// a slider with very many repeats (up to the accepted maximum 9000 and just beyond) and / or very many anchors
pub fn big_slider(t: &mut Tape, time: i64) -> String {
    let rep = *t.pick(&[1u32, 100, 1000, 8999, 9000, 9000, 9001]);
    let k = *t.pick(&[2usize, 50, 300, 1500, 3000]);
    let pts: Vec<String> = (0..k).map(|i| format!("{}:{}", 100 + (i * 7) % 300, 100 + (i * 13) % 200)).collect();
    let letter = *t.pick(&["B", "L", "C", "B"]);
    let mut l = format!("100,100,{time},2,0,{letter}|{},{rep},{}", pts.join("|"), t.pick(&["50", "100", "0.5"]));
    if t.chance(40) {
        let nn = rep as usize + 1;
        l.push(',');
        l.push_str(&(0..nn).map(|i| ((i * 3) % 16).to_string()).collect::<Vec<_>>().join("|"));
        if t.chance(60) {
            l.push(',');
            l.push_str(&(0..nn).map(|i| format!("{}:{}", i % 4, (i / 4) % 4)).collect::<Vec<_>>().join("|"));
        }
    }
    l
}

/// scale / geometry documents shared by the file-level properties: one very long line, very many rejected
/// lines, sliders with very many repeats / anchors, sliders with hostile geometry
pub fn gen_scale_doc(t: &mut Tape) -> (String, &'static str) {
    match t.weighted(&[3, 1, 3, 5]) {
        0 => (gen_long_line_doc(t), "very long line"),
        1 => (gen_many_lines_doc(t), "very many lines"),
        k => {
            let mode = t.below(4);
            let ver = gen_version(t);
            let mut s = format!("osu file format v{ver}\n\n[General]\nMode: {mode}\n\n[Difficulty]\nSliderMultiplier:{}\nSliderTickRate:{}\n\n[TimingPoints]\n0,{},4,1,0,100,1,0\n\n[HitObjects]\n", t.pick(&["1.4", "0.4", "3.6"]), t.pick(&["1", "0.5", "8"]), t.pick(&["500", "300", "60000", "6"]));
            let n = 1 + t.below(3);
            for i in 0..n {
                let time = 1000 + 5000 * i as i64;
                s.push_str(&if k == 2 { big_slider(t, time) } else { geometry_slider(t, time) });
                s.push('\n');
            }
            (s, if k == 2 { "big slider" } else { "hostile slider geometry" })
        }
    }
}

/// numbers spelled unusually: Rust's float / integer parsers accept some of these and reject others; the
/// reference models follow the same rules (refmodel::num), the legacy limits apply afterwards
pub const ODD_NUMBERS: &[&str] = &[
    "1E2", "1e+2", "1e-2", "5.", ".5", "+.5", "-.5", "00012", "-007", "+0", "-0", "1_000", "0x10", "1e", "e5", "1e5", "12e0", "\u{ff11}\u{ff12}", "\u{661}",
    "Infinity", "infinity", "-Infinity", "INF", "nan", "NAN", "-nan", "1f", "1d", "1.5e3", "2.5E-1", "1e308", "1e309", "-1e309", "4e-324", "1e-400", "0.1e1", "100.", "100.0000000000001",
    "2147483647", "2147483648", "-2147483648", "-2147483649", "2147483647.5", "2147483520", "2147483583", "16777217", "9007199254740993", "99999999999999999999", "0.30000000000000004",
    "1 2", "1\t", "\t1", "--1", "+-1", "1+", "1-", "1.2.3", "1,", "", " ",
    // just inside / outside the limits by a fraction (a limit tested after rounding or truncation would move)
    "2147483647.25", "-2147483647.25", "2147483646.5", "2147483647.75", "131071.5", "131072.25", "-131072.25", "131072.75", "9000.4", "9000.5", "0.5", "-0.5", "1.5", "2.5", "-1.5",
];

pub fn odd_number(t: &mut Tape) -> &'static str {
    *t.pick(ODD_NUMBERS)
}
