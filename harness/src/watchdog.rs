//! Per-case watchdog: a case that runs longer than the limit makes the whole check
//! exit with code 2 ("inconclusive"), never with a violation. The input is saved.

use std::collections::HashMap;
use std::sync::atomic::{AtomicBool, Ordering};
use std::sync::{Arc, Mutex, OnceLock};
use std::thread::ThreadId;
use std::time::{Duration, Instant};

type Table = Mutex<HashMap<ThreadId, (Instant, Vec<u8>)>>;
static TABLE: OnceLock<Table> = OnceLock::new();

fn table() -> &'static Table {
    TABLE.get_or_init(|| Mutex::new(HashMap::new()))
}

pub struct Guard;
impl Drop for Guard {
    fn drop(&mut self) {
        table().lock().unwrap().remove(&std::thread::current().id());
    }
}

/// register the case the current thread is about to evaluate
pub fn guard(bytes: &[u8]) -> Guard {
    let head = &bytes[..bytes.len().min(1 << 17)];
    table().lock().unwrap().insert(std::thread::current().id(), (Instant::now(), head.to_vec()));
    Guard
}

pub struct Watch {
    stop: Arc<AtomicBool>,
}
impl Drop for Watch {
    fn drop(&mut self) {
        self.stop.store(true, Ordering::Relaxed);
    }
}

pub fn limit() -> Duration {
    Duration::from_secs(std::env::var("VERIF_CASE_TIMEOUT_S").ok().and_then(|s| s.parse().ok()).unwrap_or(60))
}

pub fn start(id: &'static str) -> Watch {
    let stop = Arc::new(AtomicBool::new(false));
    let s2 = stop.clone();
    std::thread::spawn(move || {
        let lim = limit();
        while !s2.load(Ordering::Relaxed) {
            std::thread::sleep(Duration::from_millis(500));
            let t = table().lock().unwrap();
            for (_, (since, bytes)) in t.iter() {
                if since.elapsed() > lim {
                    let dir = crate::engine::verif_dir().join("replays").join(id);
                    let _ = std::fs::create_dir_all(&dir);
                    let p = dir.join(format!("watchdog-{:016x}.osu", crate::engine::hash64(bytes)));
                    let _ = std::fs::write(&p, bytes);
                    println!("INCONCLUSIVE: property={id} a case ran longer than {}s (input saved to {}); this is reported as exit 2, not as a violation", lim.as_secs(), p.display());
                    std::process::exit(2);
                }
            }
        }
    });
    Watch { stop }
}
