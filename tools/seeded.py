#!/usr/bin/env python3
"""Seeded changes (from independent sub-agents).
  seeded.py verify <name>            confirm in a scratch worktree: suite passes with the patch, demo fails with / passes without
  seeded.py run <name> [tier] [IDs]  apply /verif/seeded/<name>/patch.diff to /repo, run checks, revert; records results in meta.json
  seeded.py runall [tier]            run every kept seeded change against the check of the property it breaks
"""
import json, os, subprocess, sys, shutil, time
SEEDED='/verif/seeded'
def sh(cmd, **kw):
    return subprocess.run(cmd, shell=True, capture_output=True, text=True, **kw)
def meta_path(name): return os.path.join(SEEDED,name,'meta.json')
def load(name):
    p=meta_path(name)
    return json.load(open(p)) if os.path.exists(p) else {}
def save(name,m): json.dump(m,open(meta_path(name),'w'),indent=1)

def verify(name):
    d=os.path.join(SEEDED,name); wt=f'/tmp/seedverify-{name}'
    sh(f'git -C /repo worktree remove --force {wt}'); shutil.rmtree(wt,ignore_errors=True)
    r=sh(f'git -C /repo worktree add -q --detach {wt} HEAD'); assert r.returncode==0, r.stderr
    res={}
    try:
        r=sh(f'cd {wt} && git apply {d}/patch.diff'); assert r.returncode==0, 'patch does not apply: '+r.stderr
        r=sh(f'cd {wt} && CARGO_NET_OFFLINE=true cargo test --workspace --offline 2>&1 | grep -E "^test result|error(\\[|:)"')
        lines=r.stdout.strip().splitlines()
        res['suite_passes_with_patch']= bool(lines) and all(' 0 failed' in l for l in lines if l.startswith('test result')) and not any(l.startswith('error') for l in lines)
        res['suite_summary']=lines
        shutil.copy(f'{d}/seed_demo.rs', f'{wt}/tests/seed_demo.rs')
        r=sh(f'cd {wt} && CARGO_NET_OFFLINE=true cargo test --offline --test seed_demo 2>&1 | tail -25')
        res['demo_fails_with_patch']= 'test result: FAILED' in r.stdout or 'panicked' in r.stdout
        res['demo_output_with_patch']=r.stdout[-1500:]
        r=sh(f'cd {wt} && git apply -R {d}/patch.diff && CARGO_NET_OFFLINE=true cargo test --offline --test seed_demo 2>&1 | grep -E "^test result"')
        res['demo_passes_without_patch']= 'test result: ok' in r.stdout
    finally:
        sh(f'git -C /repo worktree remove --force {wt}'); shutil.rmtree(wt,ignore_errors=True)
    m=load(name); m['verified']=res; m['verified_at']=time.strftime('%Y-%m-%d %H:%M'); save(name,m)
    ok=res.get('suite_passes_with_patch') and res.get('demo_fails_with_patch') and res.get('demo_passes_without_patch')
    print(name,'VERIFIED' if ok else 'NOT VERIFIED', {k:v for k,v in res.items() if isinstance(v,bool)})
    return ok

def run(name, tier='quick', ids=None):
    d=os.path.join(SEEDED,name); m=load(name)
    ids=ids or [m.get('property')]
    assert sh('git -C /repo status --porcelain').stdout.strip()=='', 'repo dirty'
    r=sh(f'git -C /repo apply {d}/patch.diff'); assert r.returncode==0, r.stderr
    out={}
    try:
        for pid in ids:
            t0=time.time()
            r=sh(f'cd /verif && ./check {pid} {tier}')
            viol=[l for l in r.stdout.splitlines() if l.startswith('VIOLATION')]
            det=[l.strip() for l in r.stdout.splitlines() if l.strip().startswith('detail:')]
            out[pid]={'exit':r.returncode,'caught': r.returncode==1 and bool(viol),'seconds':round(time.time()-t0,1),'detail':(det[0][:300] if det else '')}
            print(f"{name:34s} {pid} {'CAUGHT' if out[pid]['caught'] else 'MISSED(exit %d)'%r.returncode} {out[pid]['seconds']}s {out[pid]['detail'][:150]}")
    finally:
        sh('git -C /repo checkout -- .')
    m.setdefault('checks',{})[tier]=out; save(name,m)
    return out

if __name__=='__main__':
    cmd=sys.argv[1]
    if cmd=='verify': sys.exit(0 if verify(sys.argv[2]) else 1)
    if cmd=='run':
        tier=sys.argv[3] if len(sys.argv)>3 else 'quick'
        run(sys.argv[2], tier, sys.argv[4:] or None)
    if cmd=='runall':
        tier=sys.argv[2] if len(sys.argv)>2 else 'quick'
        names=sorted(n for n in os.listdir(SEEDED) if os.path.exists(meta_path(n)))
        missed=[]
        for n in names:
            if load(n).get('obsolete_after'):
                print(f"{n:34s} skipped: obsolete after {load(n)['obsolete_after'][:60]}...")
                continue
            o=run(n,tier)
            if not any(v['caught'] for v in o.values()): missed.append(n)
        print('missed:',missed)
