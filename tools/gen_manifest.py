#!/usr/bin/env python3
"""Regenerate MANIFEST.json from the per-property table below."""
import json
props=[json.loads(l) for l in open('/verif/properties.jsonl')]
T={
 'C01':("exploration","property-based testing (proptest byte tapes) + exhaustive prefix enumeration + coverage-guided fuzzing (libFuzzer/ASan, thorough)",
  "Generated search over byte strings (noise, grammar-generated hostile documents, mutations/splices of the bundled maps, four encodings, every prefix of the small files) with a totality oracle inside catch_unwind for all nine decoders, a re-encode/re-decode leg and an end-of-file sentinel that shows the parse was never aborted; run in both feature builds (default, tracing). It cannot prove totality; it shows no counterexample in the explored space and catches the shapes that break such parsers (empty tokens, trailing type letters, half code units).",
  "trusted: rustc, proptest, the framing model used only for the non-trivial rule; hangs are reported as exit 2 by a per-case watchdog"),
 'C02':("exploration","property-based testing: round-trip oracle with field-by-field comparator + coverage-guided byte-level fuzzing with the same oracle (libFuzzer/ASan, thorough)",
  "Decode-encode-decode on accepted-mode documents and field mutations of the bundled maps with the comparison the statement enumerates; known findings are classified by input+symptom predicates and steered around in the main search, probes keep them reachable.",
  "trusted: the comparator and the chronology filter (reference framing + public parse functions)"),
 'C03':("exploration","property-based testing: metamorphic edit/round-trip relation + coverage-guided generator-tape fuzzing (libFuzzer/ASan, thorough)",
  "Random edits of representable values applied to decoded maps; R=decode(encode(edit(M))) must show the edited values exactly and equal the unedited round trip elsewhere (fixed dependency table).",
  "trusted: the per-field value generators encode the statement's 'representable' domain"),
 'C04':("exploration","property-based testing: every encoded line checked against the public section parsers + coverage-guided byte-level fuzzing with the same oracle (libFuzzer/ASan, thorough)",
  "Encodings of maps decoded from hostile and accepted inputs are checked line by line: version line, canonical headers, acceptance by parse_<section>, and value / count agreement; encode, encode_to_string and encode_to_path (fresh and existing targets) must leave the same text.",
  "trusted: the public parse_* functions as acceptance oracle (as the property states)"),
 'C05':("exploration","exhaustive small-scope enumeration + property-based testing against a framing reference model + coverage-guided byte-level fuzzing with the same oracle (libFuzzer/ASan, thorough)",
  "All line-kind sequences up to a bounded length x terminators x four encodings are enumerated and the trace of a recording DecodeBeatmap implementor is compared with an independent framing model; random longer sequences add the reference-driver and metamorphic-insertion oracles.",
  "trusted: the framing model (Appendix A.1), written from the property statement"),
 'C06':("exploration","property-based testing: metamorphic deletion of rejected lines + coverage-guided byte-level fuzzing with the same oracle (libFuzzer/ASan, thorough)",
  "Files with corrupted records; lines the public parsers reject at their position are deleted (all, and one by one) and the decoded result must not change.",
  "trusted: rejection is learned from the public parse_* functions, line positions from the framing model"),
 'C07':("exploration","property-based testing: differential between decoders + coverage-guided byte-level fuzzing with the same oracle (libFuzzer/ASan, thorough)",
  "The eight specialised decoders are compared with Beatmap on every shared field over the C01 input families.",
  "trusted: the projection tables"),
 'C08':("exploration","exhaustive schedule enumeration + property-based testing with scripted readers + coverage-guided generator-tape fuzzing (libFuzzer/ASan, thorough)",
  "Files x encodings x every fixed chunk size 1..64 / BufReader capacity 1..16 / from_str / from_path exhaustively, random chunk+Interrupted schedules beyond; every delivery must equal from_bytes.",
  "trusted: the scripted reader honours the BufRead contract"),
 'C09':("fault_enumeration","fault injection with enumerated fault points (scripted readers/writers)",
  "Every byte offset of every small bundled file in all four encodings (sampled offsets of the large ones) x five error kinds x two deliveries x {persistent, one-shot} on the read side; every output offset x {Err, Ok(0)}, flush failure and short-write schedules on the write side; random Interrupted schedules. The injected error must come back with its kind and payload.",
  "trusted: only faults expressible through io::Read/BufRead/Write are injected"),
 'C10':("exploration","exhaustive scalar sweep + property-based testing with lossy-conversion oracles + coverage-guided byte-level fuzzing with the same oracle (libFuzzer/ASan, thorough)",
  "Every Unicode scalar (thorough) in four encodings, encoding differential on generated texts, invalid UTF-8 / unpaired surrogate injections against std's lossy conversions, every stray tail byte.",
  "trusted: std String::from_utf8_lossy / from_utf16_lossy as the oracle"),
 'C11':("exploration","property-based testing against a table-driven reference interpretation + exhaustive key x class matrix + coverage-guided generator-tape and text-level grammar fuzzing against the reference model (libFuzzer/ASan, thorough)",
  "Record lists for the six key/value-like sections against an independent interpretation of the format rules; specialised decoders and Beatmap fields both compared.",
  "trusted: the rule table (Appendix A.2)"),
 'C12':("exploration","exhaustive small-scope enumeration + property-based testing against a legacy timing model + coverage-guided generator-tape and text-level grammar fuzzing against the reference model (libFuzzer/ASan, thorough)",
  "All sequences over a 32-line alphabet up to length 4/5 in four modes, random sequences to 40 lines; four control-point lists bit-equal to the model plus independent invariants.",
  "trusted: the timing and control-point models (Appendix A.3/A.4)"),
 'C13':("exploration","exhaustive small-scope enumeration + model-based property testing of add histories + coverage-guided generator-tape fuzzing (libFuzzer/ASan, thorough)",
  "All add-histories over 32 ops up to length 4/5 and random histories to 60 ops against a linear-scan model, lookups probed at/between/beyond stored times after every op.",
  "trusted: the linear-scan model"),
 'C14':("exploration","exhaustive enumeration (type x sound bytes) + property-based testing against a reference parser + coverage-guided generator-tape and text-level grammar fuzzing against the reference model (libFuzzer/ASan, thorough)",
  "An independent parser of the legacy hit-object grammar is compared with HitObjects on all observable fields.",
  "trusted: the reference grammar (Appendix A.5)"),
 'C15':("exploration","property-based testing: reference pipeline + metamorphic time shift + coverage-guided generator-tape fuzzing (libFuzzer/ASan, thorough)",
  "Generated maps checked against a reference pipeline (stable order, break combos, velocity/duration closed forms, sample defaults at +5 ms) and against themselves shifted by whole milliseconds.",
  "trusted: reference grammar + timing model; curve distance taken from the implementation"),
 'C16':("exploration","property-based testing + exhaustive integer grids with a cut/extend oracle + coverage-guided generator-tape fuzzing (libFuzzer/ASan, thorough)",
  "Requested-length semantics checked against the natural curve (prefix equality, cut point on its segment, exact dist) over generated control-point lists x nine lengths and over exhaustive small grids.",
  "trusted: the oracle derives the expected curve from the implementation's own natural curve (metamorphic), tolerances as stated"),
 'C17':("exploration","property-based testing against exact f64 curve evaluation (two-sided Hausdorff bound) + exhaustive arc grid + coverage-guided generator-tape fuzzing (libFuzzer/ASan, thorough)",
  "Computed paths compared with dense exact evaluations of Bezier / circumcircle arc / Catmull-Rom curves under per-family bounds derived from the approximation tolerances; fallbacks and joints checked differentially.",
  "trusted: the exact evaluators and the stated bounds (incl. an f32 conditioning term)"),
 'C18':("exploration","exhaustive op-sequence enumeration + model-based property testing + coverage-guided generator-tape fuzzing (libFuzzer/ASan, thorough)",
  "All sequences over 20 API operations up to length 5/6 and random sequences to 40 ops sharing one CurveBuffers; every returned curve must be bit-identical to a fresh computation of the data held at that moment.",
  "trusted: Curve::new with fresh buffers as the reference"),
 'C19':("exploration","property-based testing with invariants over progress values + coverage-guided generator-tape fuzzing (libFuzzer/ASan, thorough)",
  "Curves from the C16/C17 generators x ~70 progress values: end points, exact clamping, distance for progress, Lipschitz bound, vertex hits, linear-scan agreement.",
  "trusted: tolerance of 16 f32 ulps of the coordinate scale for f32 interpolation"),
 'C20':("exploration","exhaustive parameter grid + property-based testing against an eager reference list + shared-buffer histories + coverage-guided generator-tape fuzzing (libFuzzer/ASan, thorough)",
  "The event stream is compared element-wise with an eager reference and with structural invariants; iterator histories over one junk-prefilled buffer.",
  "trusted: the eager reference (written from the statement)"),
}
m={
 "version":1,
 "setup_cmd":"./check setup",
 "hooks":{"guard":"--cfg rosu_map_verif","enable":"no hooks are needed or present: every observation goes through rosu-map's public API; the harness depends on /repo by path, so each check rebuilds it from the current working tree","baseline_off_cmd":"cd /repo && cargo test --workspace --no-fail-fast --offline","source_commits":[],"add_only":True},
 "engines":[
  {"name":"rosu-verif","path":"harness","serves_properties":[p['id'] for p in props],"kind_free_text":"Rust crate: seeded proptest runner over byte tapes (E1), exhaustive small-scope enumeration (E2), regress replay (E4), reference models; entry point ./check <ID> <quick|thorough>"},
  {"name":"rosu-verif-fuzz","path":"harness/fuzz","serves_properties":[p['id'] for p in props if p['id']!="C09"],"kind_free_text":"cargo-fuzz / libFuzzer targets with AddressSanitizer whose bodies call the same oracles (E3); used by the thorough tier"}
 ],
 "checks":[], "not_applicable":[],
 "notes":"Technique family: property-based testing and fuzzing. Exit codes of every command: 0 held, 1 VIOLATION line printed, 2 inconclusive (build failure, watchdog). known_findings.json lists genuine defects recorded (open) or repaired by fix: commits (fixed). See DESIGN.md."
}
for p in props:
    lvl,tech,text,note=T[p['id']]
    m["checks"].append({"property_id":p['id'],"quick_cmd":f"./check {p['id']} quick","thorough_cmd":f"./check {p['id']} thorough","evidence_file":f"/verif/evidence/{p['id']}.json","replay_cmd_template":f"./check {p['id']} --replay {{path}}","engine":"rosu-verif","level_claimed":{"category":lvl,"text":text,"design_ref":f"DESIGN.md section 4 ({p['id']})"},"level_note":note,"technique":tech})
json.dump(m,open('/verif/MANIFEST.json','w'),indent=1)
print(len(m['checks']),'checks')
