# ---- C05
mut('c05-skip-no-trim-start', ['C05'], 'src/decode.rs', 'line.is_empty() || line.trim_start().starts_with("//")', 'line.is_empty() || line.starts_with("//")')
mut('c05-lowercase-header', ['C05'], 'src/section/mod.rs', '"General" => Self::General,', '"General" | "general" => Self::General,')
mut('c05-failed-version-not-header', ['C05'], 'src/decode.rs', """                    (None, true)
                }""", """                    (None, false)
                }""")
mut('c05-version-first-v', ['C05'], 'src/format_version.rs', "line.rsplit('v').next()", "line.split('v').nth(1)")
mut('c05-header-trim', ['C05'], 'src/section/mod.rs', "let section = line.strip_prefix('[')?.strip_suffix(']')?;", "let section = line.trim_start().strip_prefix('[')?.strip_suffix(']')?;")
mut('c05-long-unknown-header-swallowed', ['C05'], 'src/decode.rs', """                if let Some(next) = Section::try_from_line(line) {
                    return Ok(SectionFlow::Continue(next));
                }
""", """                if let Some(next) = Section::try_from_line(line) {
                    return Ok(SectionFlow::Continue(next));
                }

                if line.starts_with('[') && line.ends_with(']') && line.len() > 12 {
                    continue;
                }
""")
# ---- C11
mut('c11-revert-F1', ['C11'], 'src/util/key_value.rs', """        let (key, value) = s.split_once(':').unwrap_or((s, ""));

        Ok(Self {
            key: key.trim().parse()?,
            value: value.trim(),
        })""", """        let mut split = s.split(':').map(str::trim);

        Ok(Self {
            key: split.next().unwrap_or(s.trim()).parse()?,
            value: split.next().unwrap_or_default(),
        })""")
mut('c11-flag-ne-0', ['C11'], 'src/section/general/decode.rs', "GeneralKey::EpilepsyWarning => state.epilepsy_warning = i32::parse(value)? == 1,", "GeneralKey::EpilepsyWarning => state.epilepsy_warning = i32::parse(value)? != 0,")
mut('c11-clamp-04-05', ['C11'], 'src/section/difficulty.rs', "clamp(0.4, 3.6)", "clamp(0.5, 3.6)")
mut('c11-sprite-overrides-bg', ['C11'], 'src/section/events/decode.rs', "if state.background_file.is_empty() {", "if true {")
mut('c11-break-min', ['C11'], 'src/section/events/decode.rs', "let end_time = start_time.max(f64::parse(event_params)?);", "let end_time = f64::parse(event_params)?;")
mut('c11-ar-follows-od-always', ['C11'], 'src/section/difficulty.rs', "                if !state.has_approach_rate {\n                    state.difficulty.approach_rate = state.difficulty.overall_difficulty;\n                }", "                state.difficulty.approach_rate = state.difficulty.overall_difficulty;")
mut('c11-video-ext-case', ['C11'], 'src/section/events/decode.rs', "                        c.to_ascii_lowercase(),\n                    ];", "                        *c,\n                    ];")
mut('c11-metadata-comment-strip', ['C11'], 'src/section/metadata.rs', "let Ok(KeyValue { key, value }) = KeyValue::parse(line) else {", "let Ok(KeyValue { key, value }) = KeyValue::parse(line.trim_comment()) else {")
mut('c11-color-5th-accepted', ['C11'], 'src/section/colors/mod.rs', "let none = split.nth(1);", "let none = split.nth(2);")
mut('c11-named-colour-append', ['C11'], 'src/section/colors/decode.rs', "Some(old) => old.color = color,", "Some(_) => state.custom_colors.push(CustomColor { name, color }),")
mut('c11-unknown-value-resets', ['C11'], 'src/section/general/decode.rs', "GeneralKey::PreviewTime => state.preview_time = i32::parse(value)?,", "GeneralKey::PreviewTime => { state.preview_time = -1; state.preview_time = i32::parse(value)? }")
mut('c11-audio-leadin-float', ['C11'], 'src/section/general/decode.rs', "GeneralKey::AudioLeadIn => state.audio_lead_in = f64::from(i32::parse(value)?),", "GeneralKey::AudioLeadIn => state.audio_lead_in = f64::parse(value)?,")
