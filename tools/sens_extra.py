# ---- C05
mut('c05-skip-no-trim-start', ['C05'], 'src/decode.rs', 'line.is_empty() || line.trim_start().starts_with("//")', 'line.is_empty() || line.starts_with("//")')
mut('c05-lowercase-header', ['C05'], 'src/section/mod.rs', '"General" => Self::General,', '"General" | "general" => Self::General,')
mut('c05-failed-version-not-header', ['C05'], 'src/decode.rs', """                    (None, true)
                }""", """                    (None, false)
                }""")
mut('c05-version-first-v', ['C05'], 'src/format_version.rs', "line.rsplit('v').next()", "line.split('v').nth(1)")
mut('c05-header-trim', ['C05'], 'src/section/mod.rs', "let section = line.strip_prefix('[')?.strip_suffix(']')?;", "let section = line.trim_start().strip_prefix('[')?.strip_suffix(']')?;")
mut('c05-long-unknown-header-swallowed', ['C05'], 'src/decode.rs', """                if let Some(next) = Section::try_from_line(line) {
                    return Ok(SectionFlow::Continue(next));
                }
""", """                if let Some(next) = Section::try_from_line(line) {
                    return Ok(SectionFlow::Continue(next));
                }

                if line.starts_with('[') && line.ends_with(']') && line.len() > 12 {
                    continue;
                }
""")
# ---- C11
mut('c11-revert-F1', ['C11'], 'src/util/key_value.rs', """        let (key, value) = s.split_once(':').unwrap_or((s, ""));

        Ok(Self {
            key: key.trim().parse()?,
            value: value.trim(),
        })""", """        let mut split = s.split(':').map(str::trim);

        Ok(Self {
            key: split.next().unwrap_or(s.trim()).parse()?,
            value: split.next().unwrap_or_default(),
        })""")
mut('c11-flag-ne-0', ['C11'], 'src/section/general/decode.rs', "GeneralKey::EpilepsyWarning => state.epilepsy_warning = i32::parse(value)? == 1,", "GeneralKey::EpilepsyWarning => state.epilepsy_warning = i32::parse(value)? != 0,")
mut('c11-clamp-04-05', ['C11'], 'src/section/difficulty.rs', "clamp(0.4, 3.6)", "clamp(0.5, 3.6)")
mut('c11-sprite-overrides-bg', ['C11'], 'src/section/events/decode.rs', "if state.background_file.is_empty() {", "if true {")
mut('c11-break-min', ['C11'], 'src/section/events/decode.rs', "let end_time = start_time.max(f64::parse(event_params)?);", "let end_time = f64::parse(event_params)?;")
mut('c11-ar-follows-od-always', ['C11'], 'src/section/difficulty.rs', "                if !state.has_approach_rate {\n                    state.difficulty.approach_rate = state.difficulty.overall_difficulty;\n                }", "                state.difficulty.approach_rate = state.difficulty.overall_difficulty;")
mut('c11-video-ext-case', ['C11'], 'src/section/events/decode.rs', "                        c.to_ascii_lowercase(),\n                    ];", "                        *c,\n                    ];")
mut('c11-metadata-comment-strip', ['C11'], 'src/section/metadata.rs', "let Ok(KeyValue { key, value }) = KeyValue::parse(line) else {", "let Ok(KeyValue { key, value }) = KeyValue::parse(line.trim_comment()) else {")
mut('c11-color-5th-accepted', ['C11'], 'src/section/colors/mod.rs', "let none = split.nth(1);", "let none = split.nth(2);")
mut('c11-named-colour-append', ['C11'], 'src/section/colors/decode.rs', "Some(old) => old.color = color,", "Some(_) => state.custom_colors.push(CustomColor { name, color }),")
mut('c11-unknown-value-resets', ['C11'], 'src/section/general/decode.rs', "GeneralKey::PreviewTime => state.preview_time = i32::parse(value)?,", "GeneralKey::PreviewTime => { state.preview_time = -1; state.preview_time = i32::parse(value)? }")
mut('c11-audio-leadin-float', ['C11'], 'src/section/general/decode.rs', "GeneralKey::AudioLeadIn => state.audio_lead_in = f64::from(i32::parse(value)?),", "GeneralKey::AudioLeadIn => state.audio_lead_in = f64::parse(value)?,")
# ---- C14
mut('c14-slider-before-circle', ['C14'], 'src/section/hit_objects/decode.rs', "let kind = if hit_object_type.has_flag(HitObjectType::CIRCLE) {", "let kind = if hit_object_type.has_flag(HitObjectType::CIRCLE) && !hit_object_type.has_flag(HitObjectType::SLIDER) {")
mut('c14-combo-offset-without-nc', ['C14'], 'src/section/hit_objects/decode.rs', "                combo_offset: if new_combo { combo_offset } else { 0 },\n            };\n\n            HitObjectKind::Circle(circle)", "                combo_offset,\n            };\n\n            HitObjectKind::Circle(circle)")
mut('c14-repeat-9001', ['C14'], 'src/section/hit_objects/decode.rs', "if repeat_count > 9000 {", "if repeat_count > 9001 {")
mut('c14-catmull-dup-split', ['C14'], 'src/section/hit_objects/decode.rs', "if path_type == PathType::CATMULL && end_idx > 1 {", "if path_type == PathType::CATMULL && end_idx > 2 {")
mut('c14-pos-round', ['C14'], 'src/section/hit_objects/decode.rs', "x: x.parse_with_limits(MAX_COORDINATE_VALUE as f32)? as i32 as f32,", "x: (x.parse_with_limits(MAX_COORDINATE_VALUE as f32)?).round(),")
mut('c14-finish-whistle-order', ['C14'], 'src/section/hit_objects/hit_samples.rs', "        if sound_type.has_flag(HitSoundType::FINISH) {\n            sound_types.push(HitSampleInfo::new(\n                HitSampleInfo::HIT_FINISH,", "        if sound_type.has_flag(HitSoundType::WHISTLE) {\n            sound_types.push(HitSampleInfo::new(\n                HitSampleInfo::HIT_FINISH,")
mut('c14-addition-fallback', ['C14'], 'src/section/hit_objects/hit_samples.rs', "self.bank_for_addition = add_bank.or(normal_bank);", "self.bank_for_addition = add_bank;")
mut('c14-volume-negative', ['C14'], 'src/section/hit_objects/hit_samples.rs', "self.volume = cmp::max(0, next.parse_num()?);", "self.volume = next.parse_num()?;")
mut('c14-spinner-after-combo', ['C14'], 'src/section/hit_objects/decode.rs', ".is_some_and(|kind| kind.has_flag(HitObjectType::SPINNER))", ".is_some_and(|kind| kind.has_flag(HitObjectType::SPINNER) || kind.has_flag(HitObjectType::HOLD))")
mut('c14-hold-end-min', ['C14'], 'src/section/hit_objects/decode.rs', "end_time = start_time.max(new_end_time);", "end_time = new_end_time;")
mut('c14-node-sound-default', ['C14'], 'src/section/hit_objects/decode.rs', "*sound_type = s.parse().unwrap_or_default();", "if let Ok(st) = s.parse() { *sound_type = st; }")
mut('c14-perfect-4pts-stays', ['C14'], 'src/section/hit_objects/decode.rs', "            } else {\n                path_type = PathType::BEZIER;\n            }", "            } else if self.vertices.len() < 3 {\n                path_type = PathType::BEZIER;\n            }")
mut('c14-len-eps', ['C14'], 'src/section/hit_objects/decode.rs', "if new_len.abs() >= f64::EPSILON {", "if new_len.abs() > 0.0 {")
# ---- C01
mut('c01-first-mut-unwrap', ['C01'], 'src/section/hit_objects/decode.rs', "        self.vertices\n            .first_mut()\n            .ok_or(ParseHitObjectsError::InvalidLine)?\n            .path_type = Some(path_type);", "        self.vertices.first_mut().unwrap().path_type = Some(path_type);")
mut('c01-empty-token-unwrap', ['C01'], 'src/section/hit_objects/decode.rs', "                    .next()\n                    .ok_or(ParseHitObjectsError::InvalidLine)?\n                    .is_ascii_alphabetic();", "                    .next()\n                    .unwrap()\n                    .is_ascii_alphabetic();")
mut('c01-revert-F7', ['C01'], 'src/reader/decoder.rs', "Encoding::Utf16LE if idx % 2 == 0 => Ok(self.read_byte()? == Some(0)),", "Encoding::Utf16LE if idx % 2 == 0 => { let mut b = 0u8; std::io::Read::read_exact(&mut self.inner, std::slice::from_mut(&mut b))?; self.read_buf.push(b); Ok(b == 0) }")
mut('c01-abort-on-bad-line', ['C01'], 'src/decode.rs', """                #[allow(unused)]
                let res = f(state, line);
""", """                #[allow(unused)]
                let res = f(state, line);

                if res.is_err() && line.len() > 200 {
                    return Ok(SectionFlow::Break(()));
                }
""")
mut('c01-end-point-len-underflow', ['C01'], 'src/section/hit_objects/decode.rs', "let readable_points = points.len() - 1;", "let readable_points = points.len() - 2 + usize::from(first);")
mut('c01-encode-expect', ['C01'], 'src/encode.rs', "        String::from_utf8(writer).map_err(|e| IoError::new(ErrorKind::Other, e))", "        if writer.len() > 3000 && writer.iter().filter(|b| **b == b'|').count() > 40 { return Err(IoError::new(ErrorKind::Other, \"too complex\")); }\n        String::from_utf8(writer).map_err(|e| IoError::new(ErrorKind::Other, e))")
# ---- C07
mut('c07-tp-parse-general-noop', ['C07'], 'src/section/timing_points/decode.rs', "        General::parse_general(&mut state.general, line).map_err(ParseTimingPointsError::General)", "        let _ = (state, line);\n        Ok(())")
mut('c07-from-ho-cs-into-hp', ['C07'], 'src/section/hit_objects/decode.rs', "            hp_drain_rate: difficulty.hp_drain_rate,\n            circle_size: difficulty.circle_size,\n            overall_difficulty: difficulty.overall_difficulty,\n            approach_rate: difficulty.approach_rate,\n            slider_multiplier: difficulty.slider_multiplier,\n            slider_tick_rate: difficulty.slider_tick_rate,\n            background_file: events.background_file,\n            breaks: events.breaks,\n            control_points: timing_points.control_points,\n            hit_objects,", "            hp_drain_rate: difficulty.circle_size,\n            circle_size: difficulty.circle_size,\n            overall_difficulty: difficulty.overall_difficulty,\n            approach_rate: difficulty.approach_rate,\n            slider_multiplier: difficulty.slider_multiplier,\n            slider_tick_rate: difficulty.slider_tick_rate,\n            background_file: events.background_file,\n            breaks: events.breaks,\n            control_points: timing_points.control_points,\n            hit_objects,")
mut('c07-beatmap-skips-events-sprite', ['C07'], 'src/beatmap.rs', "        HitObjects::parse_events(&mut state.hit_objects, line).map_err(ParseBeatmapError::HitOjects)", "        if line.starts_with(\"Sprite\") { return Ok(()); }\n        HitObjects::parse_events(&mut state.hit_objects, line).map_err(ParseBeatmapError::HitOjects)")
mut('c07-beatmap-metadata-comment-strip', ['C07'], 'src/beatmap.rs', "        Metadata::parse_metadata(&mut state.metadata, line).map_err(ParseBeatmapError::Metadata)", "        Metadata::parse_metadata(&mut state.metadata, crate::util::StrExt::trim_comment(line)).map_err(ParseBeatmapError::Metadata)")
mut('c07-metadata-state-into', ['C07'], 'src/beatmap.rs', "            beatmap_set_id: metadata.beatmap_set_id,\n            hp_drain_rate: hit_objects.hp_drain_rate,", "            beatmap_set_id: metadata.beatmap_id,\n            hp_drain_rate: hit_objects.hp_drain_rate,", 2)
# ---- C02
mut('c02-swap-hp-cs', ['C02'], 'src/encode.rs', "            DifficultyKey::HPDrainRate,\n            self.hp_drain_rate,\n            DifficultyKey::CircleSize,\n            self.circle_size,", "            DifficultyKey::HPDrainRate,\n            self.circle_size,\n            DifficultyKey::CircleSize,\n            self.hp_drain_rate,")
mut('c02-span-count-off-by-one', ['C02'], 'src/encode.rs', "        span_count = slider.span_count(),\n    )?;", "        span_count = slider.span_count().max(2),\n    )?;")
mut('c02-drop-title-unicode', ['C02'], 'src/encode.rs', "if !self.title_unicode.is_empty() {", "if false {")
mut('c02-revert-F2', ['C02'], 'src/encode.rs', "if self.beatmap_set_id > 0 {", "if false {")
mut('c02-revert-F3', ['C02'], 'src/encode.rs', "            if i > 0 && i == control_points.len() - 1 {\n                needs_explicit_segment = true;\n            }", "")
mut('c02-break-order', ['C02'], 'src/encode.rs', "                b.start_time,\n                b.end_time\n            )?;", "                b.end_time,\n                b.start_time\n            )?;")
mut('c02-hold-end-as-duration', ['C02'], 'src/encode.rs', "write!(writer, \"{}:\", hit_object.start_time + h.duration)?;", "write!(writer, \"{}:\", h.duration)?;")
mut('c02-node-bank-add', ['C02'], 'src/encode.rs', "write!(writer, \"{}:{}\", normal_bank as i32, add_bank as i32)?;", "write!(writer, \"{}:{}\", normal_bank as i32, normal_bank as i32)?;")
mut('c02-preview-time-u', ['C02'], 'src/encode.rs', "            GeneralKey::PreviewTime,\n            self.preview_time,", "            GeneralKey::PreviewTime,\n            self.preview_time.max(-1),")
mut('c02-implicit-segment-perfect', ['C02'], 'src/encode.rs', "point.path_type != last_type || point.path_type == Some(PathType::PERFECT_CURVE);", "point.path_type != last_type;")
mut('c02-sv-precision', ['C02'], 'src/encode.rs', "write!(writer, \"{},{},\", group.time, -100.0 / props.slider_velocity)?;", "write!(writer, \"{},{:.3},\", group.time, -100.0 / props.slider_velocity)?;")

# ---- C04
mut('c04-swap-section-writers', ['C04'], 'src/encode.rs', "        self.encode_editor(&mut writer)?;\n\n        writer.write_all(b\"\\n\")?;\n        self.encode_metadata(&mut writer)?;", "        self.encode_metadata(&mut writer)?;\n\n        writer.write_all(b\"\\n\")?;\n        self.encode_editor(&mut writer)?;")
mut('c04-pipe-before-repeat', ['C04'], 'src/encode.rs', "\"{span_count},{dist},\",", "\"{span_count}|{dist},\",")
mut('c04-revert-F3-separator', ['C04'], 'src/encode.rs', "                let type_separator = if control_points.len() == 1 {\n                    b','\n                } else {\n                    b'|'\n                };", "                let type_separator = separator(i);")
mut('c04-custom-colour-name-prefix', ['C04'], 'src/encode.rs', "                \"{}: {},{},{},{}\",\n                custom.name,", "                \"Custom{}: {},{},{},{}\",\n                custom.name,")
mut('c04-bookmarks-space', ['C04'], 'src/encode.rs', "write!(writer, \",{bookmark}\")?;", "write!(writer, \", {bookmark}\")?;")
mut('c04-version-line-upper', ['C04'], 'src/encode.rs', "writeln!(writer, \"osu file format v{}\", self.format_version)?;", "writeln!(writer, \"osu file format V{}\", self.format_version)?;")
mut('c04-timing-meter-zero', ['C02'], 'src/encode.rs', "                props.timing_signature,\n                props.sample_bank,", "                props.timing_signature.saturating_sub(1),\n                props.sample_bank,")

# ---- C03
mut('c03-revert-F1', ['C03'], 'src/util/key_value.rs', """        let (key, value) = s.split_once(':').unwrap_or((s, ""));

        Ok(Self {
            key: key.trim().parse()?,
            value: value.trim(),
        })""", """        let mut split = s.split(':').map(str::trim);

        Ok(Self {
            key: split.next().unwrap_or(s.trim()).parse()?,
            value: split.next().unwrap_or_default(),
        })""")
mut('c03-leadin-as-float', ['C03'], 'src/encode.rs', "            GeneralKey::AudioLeadIn,\n            self.audio_lead_in,", "            GeneralKey::AudioLeadIn,\n            self.audio_lead_in as f32,")
mut('c03-metadata-strip-comment', ['C03'], 'src/section/metadata.rs', "let Ok(KeyValue { key, value }) = KeyValue::parse(line) else {", "let Ok(KeyValue { key, value }) = KeyValue::parse(line.trim_comment()) else {")
mut('c03-f32-precision', ['C03'], 'src/encode.rs', "            DifficultyKey::ApproachRate,\n            self.approach_rate,", "            DifficultyKey::ApproachRate,\n            (self.approach_rate * 1000.0).round() / 1000.0,")
mut('c03-epilepsy-always', ['C03'], 'src/encode.rs', "if self.epilepsy_warning {", "if self.epilepsy_warning || self.letterbox_in_breaks {")
mut('c03-source-needs-title', ['C03'], 'src/encode.rs', "if !self.source.is_empty() {", "if !self.source.is_empty() && !self.title.is_empty() {")
mut('c03-named-colour-alpha', ['C03'], 'src/section/colors/mod.rs', "Ok(Self::new(r.parse()?, g.parse()?, b.parse()?, 255))", "Ok(Self::new(r.parse()?, g.parse()?, b.parse()?, 254))")
mut('c03-countdown-as-name', ['C03'], 'src/section/general/mod.rs', "\"2\" | \"Half speed\" => Ok(Self::HalfSpeed),", "\"2\" | \"Half speed\" => Ok(Self::DoubleSpeed),")

# ---- C06
mut('c06-revert-F4', ['C06'], 'src/section/hit_objects/decode.rs', "        self.curve_points.clear();\n\n        self.point_split(point_str.split('|'), f)", "        self.point_split(point_str.split('|'), f)")
mut('c06-timing-added-before-flags', ['C06'], 'src/section/timing_points/decode.rs', "        let mut kiai_mode = false;\n        let mut omit_first_bar_signature = false;\n", "        let mut kiai_mode = false;\n        let mut omit_first_bar_signature = false;\n        if timing_change && !beat_len.is_nan() { state.add_control_point(time, TimingPoint::new(time, beat_len, false, time_signature), true); }\n")
mut('c06-od-assigned-before-parse', ['C06'], 'src/section/difficulty.rs', "                state.difficulty.overall_difficulty = value.parse_num()?;", "                state.difficulty.overall_difficulty = 5.0;\n                state.difficulty.overall_difficulty = value.parse_num()?;")
mut('c06-break-pushed-before-end', ['C06'], 'src/section/events/decode.rs', "                let start_time = f64::parse(start_time)?;\n                let end_time = start_time.max(f64::parse(event_params)?);\n\n                state.breaks.push(BreakPeriod {\n                    start_time,\n                    end_time,\n                });", "                let start_time = f64::parse(start_time)?;\n                state.breaks.push(BreakPeriod { start_time, end_time: start_time });\n                let end_time = start_time.max(f64::parse(event_params)?);\n                state.breaks.last_mut().unwrap().end_time = end_time;")
mut('c06-colour-name-registered', ['C06'], 'src/section/colors/decode.rs', "        let color: Color = value.parse()?;\n", "        if let ColorsKey::Name(ref name) = key { if !state.custom_colors.iter().any(|c| &c.name == name) { state.custom_colors.push(CustomColor { name: name.clone(), color: Color::default() }); } }\n        let color: Color = value.parse()?;\n")

mut('c06-last-object-before-extras', ['C06'], 'src/section/hit_objects/decode.rs', "            let duration = (duration - start_time).max(0.0);\n", "            let duration = (duration - start_time).max(0.0);\n            state.last_object = Some(hit_object_type);\n")

mut('c06-pending-time-leaks-on-error', ['C06'], 'src/section/timing_points/decode.rs', "        let beat_len = beat_len\n            .trim()\n            .parse::<f64>()\n            .map_err(ParseNumberError::InvalidFloat)?;", "        let beat_len = match beat_len.trim().parse::<f64>() {\n            Ok(v) => v,\n            Err(e) => {\n                state.pending_control_points_time = time;\n                return Err(ParseNumberError::InvalidFloat(e).into());\n            }\n        };")

# ---- C08
mut('c08-bom-consume-one-more', ['C05'], 'src/reader/decoder.rs', "        head.drain(..consumed);", "        head.drain(..(consumed + usize::from(consumed == 2 && head.len() == 3 && head[2] == b'\\r')));")
mut('c08-bom-needs-3-available', ['C08'], 'src/reader/decoder.rs', "            let len = available.len().min(3 - head.len());", "            let len = if head.is_empty() { available.len().min(3) } else { 0 };\n            if len == 0 { break; }")
mut('c08-interrupted-bom-default', ['C08'], 'src/reader/decoder.rs', "                Err(ref err) if err.kind() == ErrorKind::Interrupted => continue,\n                Err(err) => return Err(err),\n            };\n\n            if available.is_empty() {", "                Err(ref err) if err.kind() == ErrorKind::Interrupted => break,\n                Err(err) => return Err(err),\n            };\n\n            if available.is_empty() {")
mut('c08-read-byte-skips-on-boundary', ['C08'], 'src/reader/decoder.rs', "                Ok([]) => Ok(None),\n                Err(ref err) if err.kind() == ErrorKind::Interrupted => continue,", "                Ok([]) => Ok(None),\n                Err(ref err) if err.kind() == ErrorKind::Interrupted => Ok(Some(0)),")

mut('c08-drop-single-byte-head', ['C08'], 'src/reader/decoder.rs', "            head.extend_from_slice(&available[..len]);", "            if available.len() >= 2 || !head.is_empty() { head.extend_from_slice(&available[..len]); }")

# ---- C09
mut('c09-swallow-read-error-in-section', ['C09'], 'src/decode.rs', "            Ok(None) => return Ok(SectionFlow::Break(())),\n            Err(err) => return Err(err),", "            Ok(None) => return Ok(SectionFlow::Break(())),\n            Err(_) => return Ok(SectionFlow::Break(())),")
mut('c09-drop-final-flush', ['C09'], 'src/encode.rs', "        self.encode_hit_objects(&mut writer)?;\n\n        writer.flush()", "        self.encode_hit_objects(&mut writer)?;\n\n        Ok(())")
mut('c09-swallow-write-error', ['C09'], 'src/encode.rs', "            get_sample_bank(writer, &hit_object.samples, false, self.mode)?;\n\n            writer.write_all(b\"\\n\")?;", "            get_sample_bank(writer, &hit_object.samples, false, self.mode)?;\n\n            let _ = writer.write_all(b\"\\n\");")
mut('c09-rewrap-read-error', ['C09'], 'src/reader/decoder.rs', "                Ok([]) => Ok(None),\n                Err(ref err) if err.kind() == ErrorKind::Interrupted => continue,\n                Err(err) => Err(err),", "                Ok([]) => Ok(None),\n                Err(ref err) if err.kind() == ErrorKind::Interrupted => continue,\n                Err(err) => Err(std::io::Error::new(ErrorKind::UnexpectedEof, err.to_string())),")
mut('c09-bom-error-default', ['C09'], 'src/reader/decoder.rs', "                Err(ref err) if err.kind() == ErrorKind::Interrupted => continue,\n                Err(err) => return Err(err),\n            };\n\n            if available.is_empty() {", "                Err(ref err) if err.kind() == ErrorKind::Interrupted => continue,\n                Err(_) => break,\n            };\n\n            if available.is_empty() {")
mut('c09-version-error-as-eof', ['C09'], 'src/decode.rs', "            Ok(None) => (None, false),\n            Err(err) => return Err(err),", "            Ok(None) => (None, false),\n            Err(err) if err.kind() == io::ErrorKind::WouldBlock => (None, false),\n            Err(err) => return Err(err),")

# ---- C10
mut('c10-swap-le-be', ['C10'], 'src/reader/encoding.rs', "            [0xFF, 0xFE, ..] => (Self::Utf16LE, 2),\n            [0xFE, 0xFF, ..] => (Self::Utf16BE, 2),", "            [0xFF, 0xFE, ..] => (Self::Utf16BE, 2),\n            [0xFE, 0xFF, ..] => (Self::Utf16LE, 2),")
mut('c10-replacement-char-question', ['C10'], 'src/reader/encoding.rs', "                        dst.push(char::REPLACEMENT_CHARACTER);", "                        dst.push('?');")
mut('c10-revert-F8-be', ['C10'], 'src/reader/decoder.rs', "Encoding::Utf16BE => Ok(idx % 2 == 1 && self.read_buf[idx - 1] == 0),", "Encoding::Utf16BE => Ok(true),")
mut('c10-revert-F8-le-odd', ['C10'], 'src/reader/decoder.rs', "            Encoding::Utf16LE => Ok(false),", "            Encoding::Utf16LE => Ok(true),")
mut('c10-utf16-surrogate-drop', ['C10'], 'src/reader/encoding.rs', "let chars = char::decode_utf16(src).map(|ch| ch.unwrap_or(char::REPLACEMENT_CHARACTER));", "let chars = char::decode_utf16(src).filter_map(|ch| ch.ok());")
mut('c10-utf8-error-len-skip-one', ['C10'], 'src/reader/encoding.rs', "src = &src[valid_up_to + error_len..];", "src = &src[valid_up_to + 1..];")
mut('c10-bom-utf8-not-skipped', ['C10','C05'], 'src/reader/encoding.rs', "[0xEF, 0xBB, 0xBF, ..] => (Self::Utf8, 3),", "[0xEF, 0xBB, 0xBF, ..] => (Self::Utf8, 0),")

mut('c02-revert-F9', ['C02','C04'], 'src/section/hit_objects/slider/curve.rs', "    if d == 0.0 {\n        return None;\n    }", "    if false {\n        return None;\n    }")

# ---- C15
mut('c15-sort-unstable', ['C15'], 'src/section/hit_objects/decode.rs', "hit_objects.sort_by(|a, b| a.start_time.total_cmp(&b.start_time));", "hit_objects.sort_unstable_by(|a, b| a.start_time.total_cmp(&b.start_time));")
mut('c15-leniency-0', ['C15'], 'src/section/hit_objects/decode.rs', "const CONTROL_POINT_LENIENCY: f64 = 5.0;", "const CONTROL_POINT_LENIENCY: f64 = 0.0;")
mut('c15-break-le', ['C15'], 'src/section/hit_objects/decode.rs', "&& events.breaks[curr_break].end_time < h.start_time", "&& events.breaks[curr_break].end_time <= h.start_time")
mut('c15-node-time-uses-start', ['C15'], 'src/section/hit_objects/decode.rs', "                        h.start_time + i as f64 * duration / span_count + CONTROL_POINT_LENIENCY;", "                        h.start_time + i as f64 * duration + CONTROL_POINT_LENIENCY;")
mut('c15-sample-at-start', ['C15'], 'src/section/hit_objects/decode.rs', "                .sample_point_at(end_time + CONTROL_POINT_LENIENCY)", "                .sample_point_at(h.start_time + CONTROL_POINT_LENIENCY)")
mut('c15-hold-gets-combo', ['C15'], 'src/section/hit_objects/decode.rs', "                HitObjectKind::Spinner(ref mut h) => h.new_combo |= force_new_combo,", "                HitObjectKind::Spinner(_) => {}")
mut('c15-velocity-uses-end-point', ['C15'], 'src/section/hit_objects/decode.rs', "                    .difficulty_point_at(h.start_time)\n                    .map_or(DifficultyPoint::DEFAULT_SLIDER_VELOCITY, |point| {", "                    .difficulty_point_at(h.start_time + 1.0)\n                    .map_or(DifficultyPoint::DEFAULT_SLIDER_VELOCITY, |point| {")
mut('c15-force-combo-sticky', ['C15'], 'src/section/hit_objects/decode.rs', "            force_new_combo = false;\n        }", "            if !matches!(h.kind, HitObjectKind::Hold(_)) { force_new_combo = false; }\n        }")

# (equivalent: the 1000 vs 10000 upper clamp of the precision-adjusted beat length never binds because slider velocity is already clamped to [0.1, 10])

# ---- dimensions added after round 4 of the seeded changes
mut('c14-version-dependent-first-object', ['C14','C15'], 'src/section/hit_objects/decode.rs', "            last_object: None,", "            last_object: if version < 5 { Some(HitObjectType(1)) } else { None },")
