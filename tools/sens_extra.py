# ---- C05
mut('c05-skip-no-trim-start', ['C05'], 'src/decode.rs', 'line.is_empty() || line.trim_start().starts_with("//")', 'line.is_empty() || line.starts_with("//")')
mut('c05-lowercase-header', ['C05'], 'src/section/mod.rs', '"General" => Self::General,', '"General" | "general" => Self::General,')
mut('c05-failed-version-not-header', ['C05'], 'src/decode.rs', """                    (None, true)
                }""", """                    (None, false)
                }""")
mut('c05-version-first-v', ['C05'], 'src/format_version.rs', "line.rsplit('v').next()", "line.split('v').nth(1)")
mut('c05-header-trim', ['C05'], 'src/section/mod.rs', "let section = line.strip_prefix('[')?.strip_suffix(']')?;", "let section = line.trim_start().strip_prefix('[')?.strip_suffix(']')?;")
mut('c05-long-unknown-header-swallowed', ['C05'], 'src/decode.rs', """                if let Some(next) = Section::try_from_line(line) {
                    return Ok(SectionFlow::Continue(next));
                }
""", """                if let Some(next) = Section::try_from_line(line) {
                    return Ok(SectionFlow::Continue(next));
                }

                if line.starts_with('[') && line.ends_with(']') && line.len() > 12 {
                    continue;
                }
""")
