#!/usr/bin/env bash
# tools/seeds.sh <from> <to> [tier] [ids...] : run checks over a range of seeds, print anything that is not silent
FROM=${1:-1}; TO=${2:-10}; TIER=${3:-quick}; shift 3 2>/dev/null
IDS=("$@"); [ ${#IDS[@]} -eq 0 ] && IDS=(C01 C02 C03 C04 C05 C06 C07 C08 C09 C10 C11 C12 C13 C14 C15 C16 C17 C18 C19 C20)
cd "$(dirname "$0")/.." || exit 2
./check setup >/dev/null 2>&1
bad=0
for s in $(seq "$FROM" "$TO"); do
  for id in "${IDS[@]}"; do
    out=$(VERIF_SEED=$s ./check "$id" "$TIER" 2>&1); rc=$?
    if [ $rc -ne 0 ]; then bad=$((bad+1)); echo "=== seed $s $id rc=$rc"; echo "$out" | grep -v "^KNOWN-FINDING" | head -12; fi
  done
  echo "seed $s done (bad so far: $bad)"
done
echo "TOTAL non-zero exits: $bad"
