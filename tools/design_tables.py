#!/usr/bin/env python3
"""Regenerates the seeded-change table of DESIGN.md section 6.2 from seeded/*/meta.json (prints markdown)."""
import json, os, re, subprocess
S='/verif/seeded'
print('| seeded change | breaks | file(s) changed | needs, in order to manifest | caught by (quick tier) |')
print('|---|---|---|---|---|')
for n in sorted(os.listdir(S)):
    mp=os.path.join(S,n,'meta.json')
    if not os.path.exists(mp): continue
    m=json.load(open(mp))
    files=sorted(set(re.findall(r'^\+\+\+ b/src/(\S+)', open(os.path.join(S,n,'patch.diff')).read(), re.M)))
    q=m.get('checks',{}).get('quick',{})
    caught=', '.join(k for k,v in q.items() if v.get('caught')) or 'MISSED'
    needs=m.get('needs_to_manifest','').replace('|','\\|').replace('\n',' ')
    print(f"| `{n}` | {m.get('property')} | `{', '.join(files)}` | {needs} | {caught} |")
