#!/usr/bin/env python3
"""Sensitivity runs: apply one deliberate breakage to /repo, run the quick check(s)
that should notice, revert.  usage: sens.py [-t tier] [mutant-name-substring ...]
The mutants are single textual replacements (file, old, new); each must compile and
pass the 68 repository tests (checked with --tests)."""
import subprocess, sys, os, json, time
REPO='/repo'
M=[]
def mut(name, props, file, old, new, count=1):
    M.append(dict(name=name, props=props, file=file, old=old, new=new, count=count))

# ---- C12 / C13
mut('c12-swap-push', ['C12'], 'src/section/timing_points/decode.rs',
    'if timing_change {\n            point.push_front(self);\n        } else {\n            point.push_back(self);\n        }',
    'if timing_change {\n            point.push_back(self);\n        } else {\n            point.push_front(self);\n        }')
mut('c12-clamp-6-to-1', ['C12'], 'src/section/timing_points/control_points/timing.rs', 'beat_len.clamp(6.0, 60_000.0)', 'beat_len.clamp(1.0, 60_000.0)')
mut('c12-flush-order', ['C12'], 'src/section/timing_points/decode.rs', '(time - self.pending_control_points_time).abs() >= f64::EPSILON', '(time - self.pending_control_points_time).abs() >= 1e-3')
mut('c13-saturating-in-difficulty', ['C13','C12'], 'src/section/timing_points/decode.rs',
    "    pub fn difficulty_point_at(&self, time: f64) -> Option<&DifficultyPoint> {\n        self.difficulty_points\n            .binary_search_by(|probe| probe.time.total_cmp(&time))\n            .map_or_else(|i| i.checked_sub(1), Some)",
    "    pub fn difficulty_point_at(&self, time: f64) -> Option<&DifficultyPoint> {\n        self.difficulty_points\n            .binary_search_by(|probe| probe.time.total_cmp(&time))\n            .map_or_else(|i| Some(i.saturating_sub(1)), Some)")
mut('c13-skip-effect-redundancy', ['C13','C12'], 'src/section/timing_points/decode.rs',
    "            Some(existing) => self.is_redundant(existing),\n            None => self.is_redundant(&EffectPoint::default()),",
    "            Some(existing) => self.is_redundant(existing),\n            None => false,")
# ---- C20
mut('c20-drop-ticks-clear', ['C20'], 'src/section/hit_objects/slider/event.rs', '        ticks.clear();\n', '')
mut('c20-last-tick-min', ['C20'], 'src/section/hit_objects/slider/event.rs', '(self.start_time + total_duration / 2.0)\n                        .max(', '(self.start_time + total_duration / 2.0)\n                        .min(')
mut('c20-repeat-on-last-span', ['C20'], 'src/section/hit_objects/slider/event.rs', 'let with_repeat = span < iter.span_count - 1;', 'let with_repeat = span < iter.span_count;')
mut('c20-min-dist-gt', ['C20'], 'src/section/hit_objects/slider/event.rs', 'if d >= iter.len - iter.min_dist_from_end {', 'if d > iter.len - iter.min_dist_from_end + 1.0 {')

# ---- C16 / C17
mut('c16-drop-equal-points-exception', ['C16'], 'src/section/hit_objects/slider/curve.rs', 'if matches!(path.as_slice() , [.., a, b] if a == b && expected_len > calculated_len) {', 'if false {')
mut('c16-truncate-one-more', ['C16'], 'src/section/hit_objects/slider/curve.rs', 'path.truncate(last_valid + 1);', 'path.truncate(last_valid);')
mut('c16-lt-to-le', ['C16'], 'src/section/hit_objects/slider/curve.rs', '.position(|l| *l < expected_len)', '.position(|l| *l <= expected_len)')
mut('c17-bezier-tol-2', ['C17'], 'src/section/hit_objects/slider/curve.rs', 'const BEZIER_TOLERANCE: f32 = 0.25;', 'const BEZIER_TOLERANCE: f32 = 2.0;')
mut('c17-arc-dir-inverted', ['C17'], 'src/section/hit_objects/slider/curve.rs', 'if ortho_a_to_c.dot(b - a) < 0.0 {', 'if ortho_a_to_c.dot(b - a) > 0.0 {')
mut('c17-catmull-detail-5', ['C17'], 'src/section/hit_objects/slider/curve.rs', 'const CATMULL_DETAIL: usize = 50;', 'const CATMULL_DETAIL: usize = 5;')
mut('c17-arc-tol-1', ['C17'], 'src/section/hit_objects/slider/curve.rs', 'const CIRCULAR_ARC_TOLERANCE: f32 = 0.1;', 'const CIRCULAR_ARC_TOLERANCE: f32 = 1.0;')
mut('c17-no-joint-dedupe', ['C17'], 'src/section/hit_objects/slider/curve.rs', '                if skip_first {', '                if false && skip_first {')
mut('c17-catmull-v4-extrap', ['C17'], 'src/section/hit_objects/slider/curve.rs', 'let v4 = points.get(i + 1).copied().unwrap_or_else(|| v3 * 2.0 - v2);', 'let v4 = points.get(i + 1).copied().unwrap_or(v3);')

# ---- C18
mut('c18-revert-F5', ['C18'], 'src/section/hit_objects/slider/curve.rs', """    path.clear();
    *optimized_len = 0.0;

    if points.is_empty() {
        return;
    }
""", """    if points.is_empty() {
        return;
    }

    path.clear();
    *optimized_len = 0.0;
""")
mut('c18-no-clear-on-len-mut', ['C18'], 'src/section/hit_objects/slider/path.rs', """    pub fn expected_dist_mut(&mut self) -> &mut Option<f64> {
        self.clear_curve();
""", """    pub fn expected_dist_mut(&mut self) -> &mut Option<f64> {
""")
mut('c18-no-clear-on-points-mut', ['C18'], 'src/section/hit_objects/slider/path.rs', """    pub fn control_points_mut(&mut self) -> &mut Vec<PathControlPoint> {
        self.clear_curve();
""", """    pub fn control_points_mut(&mut self) -> &mut Vec<PathControlPoint> {
""")

# (equivalent mutants, not used: `len < self.left.len()` in extend_exact; dropping `*optimized_len = 0.0` in calculate_path)
# (equivalent: returning p1 instead of p0 in the near-zero guard of interpolate_vertices)
# ---- C19
mut('c19-no-clamp', ['C19'], 'src/section/hit_objects/slider/curve.rs', "progress.clamp(0.0, 1.0) * dist(lengths)", "progress * dist(lengths)")
mut('c19-d0-offbyone', ['C19'], 'src/section/hit_objects/slider/curve.rs', "    let p0 = path[i - 1];\n\n    let d0 = lengths[i - 1];", "    let p0 = path[i - 1];\n\n    let d0 = lengths[i.saturating_sub(2)];")
mut('c19-idx-partition', ['C19'], 'src/section/hit_objects/slider/curve.rs', ".map_or_else(identity, identity)", ".map_or_else(|i| i.saturating_sub(1), identity)")

def sh(cmd, **kw):
    return subprocess.run(cmd, shell=True, capture_output=True, text=True, **kw)

def main():
    args=sys.argv[1:]
    tier='quick'; tests=False
    if '-t' in args:
        i=args.index('-t'); tier=args[i+1]; del args[i:i+2]
    if '--tests' in args:
        args.remove('--tests'); tests=True
    extra = os.path.join(os.path.dirname(__file__),'sens_extra.py')
    if os.path.exists(extra):
        exec(open(extra).read(), dict(mut=mut))
    sel=[m for m in M if not args or any(a in m['name'] for a in args)]
    assert sh('git -C /repo status --porcelain').stdout.strip()=='' , 'repo dirty'
    res=[]
    for m in sel:
        p=os.path.join(REPO,m['file']); s=open(p).read()
        if s.count(m['old'])!=m['count']:
            print(f"{m['name']}: PATTERN MISMATCH ({s.count(m['old'])})"); res.append((m['name'],'pattern-mismatch')); continue
        open(p,'w').write(s.replace(m['old'],m['new']))
        try:
            tnote=''
            if tests:
                r=sh('cd /repo && CARGO_NET_OFFLINE=true cargo test --workspace --offline 2>&1 | grep -E "^test result|error(\\[|:)"')
                ok = 'FAILED' not in r.stdout and 'failed;' not in r.stdout.replace('0 failed;','') and 'error' not in r.stdout
                tnote = ' tests:' + ('pass' if ok else 'FAIL')
            for pid in m['props']:
                t0=time.time()
                r=sh(f'cd /verif && ./check {pid} {tier}')
                viol=[l for l in r.stdout.splitlines() if l.startswith('VIOLATION')]
                det=[l for l in r.stdout.splitlines() if l.strip().startswith('detail:')]
                status='CAUGHT' if r.returncode==1 and viol else f'MISSED(exit {r.returncode})'
                print(f"{m['name']:40s} {pid} {status} {time.time()-t0:.0f}s{tnote} {det[0][:140] if det else ''}")
                res.append((m['name'],pid,status))
        finally:
            sh('git -C /repo checkout -- .')
    missed=[r for r in res if 'CAUGHT' not in r[-1]]
    print(f"{len(res)-len(missed)}/{len(res)} caught")
    for r in missed: print('  not caught:', r)
main()
